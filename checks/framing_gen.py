"""Request streams for C01 / C02 / C06 / C07: sentences of the HTTP/1.x request
grammar and their near-misses (single-token mutations at each grammar
position), pipelines, size limits around the message sizes."""
import random

CRLF = b"\r\n"


def msg(method=b"GET", target=b"/a", version=b"HTTP/1.1", headers=(), body=b"", raw_body=None):
    h = b"".join(n + b": " + v + CRLF for n, v in headers)
    return method + b" " + target + (b" " + version if version else b"") + CRLF + h + CRLF + (raw_body if raw_body is not None else body)


def chunked(parts, ext=b"", trailers=(), last_ext=b""):
    out = b""
    for p in parts:
        out += b"%x" % len(p) + ext + CRLF + p + CRLF
    out += b"0" + last_ext + CRLF + b"".join(n + b": " + v + CRLF for n, v in trailers) + CRLF
    return out


HOST = (b"Host", b"h")


def sentences():
    """(name, bytes) well-formed messages of the three body framings"""
    S = []
    S.append(("get", msg()))
    S.append(("get-hdrs", msg(headers=[HOST, (b"X-A", b"1"), (b"X-B", b"two words")])))
    S.append(("get-abs", msg(target=b"http://h.example/p?q=1", headers=[HOST])))
    S.append(("options-star", msg(method=b"OPTIONS", target=b"*", headers=[HOST])))
    S.append(("post-cl", msg(method=b"POST", headers=[HOST, (b"Content-Length", b"5")], body=b"hello")))
    S.append(("post-cl0", msg(method=b"POST", headers=[HOST, (b"Content-Length", b"0")])))
    S.append(("post-cl-lead0", msg(method=b"POST", headers=[HOST, (b"Content-Length", b"005")], body=b"hello")))
    S.append(("post-chunked", msg(method=b"POST", headers=[HOST, (b"Transfer-Encoding", b"chunked")], raw_body=chunked([b"abc", b"de"]))))
    S.append(("post-chunked-ext", msg(method=b"POST", headers=[HOST, (b"Transfer-Encoding", b"chunked")], raw_body=chunked([b"abc"], ext=b";n=v;q=\"s t\"", last_ext=b";z"))))
    S.append(("post-chunked-trailer", msg(method=b"POST", headers=[HOST, (b"Transfer-Encoding", b"Chunked")], raw_body=chunked([b"ab"], trailers=[(b"X-T", b"1"), (b"X-U", b"2")]))))
    S.append(("post-chunked-empty", msg(method=b"POST", headers=[HOST, (b"Transfer-Encoding", b"chunked")], raw_body=chunked([]))))
    S.append(("obs-fold", msg(headers=[HOST, (b"X-Long", b"a" + CRLF + b"  b")])))
    S.append(("http10", msg(version=b"HTTP/1.0", headers=[HOST])))
    S.append(("http10-ka", msg(version=b"HTTP/1.0", headers=[HOST, (b"Connection", b"keep-alive")])))
    S.append(("conn-close", msg(headers=[HOST, (b"Connection", b"close")])))
    S.append(("empty-line-first", CRLF + msg(headers=[HOST])))
    return S


def framing_variants():
    """ambiguous / malformed framing headers"""
    V = []
    P = lambda h, body=b"", v=b"HTTP/1.1": msg(method=b"POST", version=v, headers=[HOST] + h, raw_body=body)
    ch = chunked([b"abc"])
    V.append(("cl-dup-same", P([(b"Content-Length", b"3"), (b"Content-Length", b"3")], b"abc")))
    V.append(("cl-dup-conflict", P([(b"Content-Length", b"3"), (b"Content-Length", b"4")], b"abcd")))
    V.append(("cl-list", P([(b"Content-Length", b"3, 3")], b"abc")))
    for bad in (b"+3", b"-3", b"0x3", b"3_0", b"3 ", b" 3", b"3\t", b"\xb3", b"3.0", b"", b"3;", b"1e1", b"\xd9\xa3"):
        V.append(("cl-" + repr(bad), P([(b"Content-Length", bad)], b"abc")))
    for tail, n in ((b"50", 50), (b"5", 5), (b"10", 10)):
        V.append(("cl-zeros4400-" + tail.decode(), P([(b"Content-Length", b"0" * 4400 + tail)], b"x" * n)))
    V.append(("cl-underscore", P([(b"Content_Length", b"3")], b"abc")))
    V.append(("cl-ws-before-colon", msg(method=b"POST", headers=[HOST], raw_body=b"").replace(b"Host: h\r\n", b"Host: h\r\nContent-Length : 3\r\n") + b"abc"))
    V.append(("cl-and-te", P([(b"Content-Length", b"3"), (b"Transfer-Encoding", b"chunked")], ch)))
    V.append(("te-and-cl", P([(b"Transfer-Encoding", b"chunked"), (b"Content-Length", b"13")], ch)))
    for te in (b"gzip", b"identity", b"gzip, chunked", b"chunked, gzip", b"chunked, chunked", b"Chunked", b"CHUNKED", b"chunked ", b" chunked", b"chunked\t",
               b"x-chunked", b"chunked;q=1", b"\"chunked\"", b"chunke", b"chunkedd", b"chunked,", b",chunked", b"chunked\x0b", b"\x85chunked",
               # list elements made of bytes that a text library may take for white space (NEL, NBSP, form feed, FS..US)
               b"chunked, \x85", b"\xa0 ,chunked", b"chunked,\xa0", b"\x85, chunked", b"chunked, \x0c", b"chunked,\x1c", b"chunked\xa0", b"\x0cchunked", b"chunked , \x85\xa0"):
        V.append(("te-" + repr(te), P([(b"Transfer-Encoding", te)], ch)))
    V.append(("te-fold-lf", P([(b"Transfer-Encoding", b"chunked\r\n \n")], ch)))
    V.append(("te-fold", P([(b"Transfer-Encoding", b"chunked\r\n ")], ch)))
    V.append(("cl-fold-lf", P([(b"Content-Length", b"3\r\n \n")], b"abc")))
    V.append(("te-two-lines", P([(b"Transfer-Encoding", b"gzip"), (b"Transfer-Encoding", b"chunked")], ch)))
    V.append(("te-underscore", P([(b"Transfer_Encoding", b"chunked")], ch)))
    V.append(("te-http10", P([(b"Transfer-Encoding", b"chunked"), (b"Connection", b"keep-alive")], ch, v=b"HTTP/1.0")))
    # Transfer-Encoding on a request that is not HTTP/1.1 (whatever else its version says): processed or refused, then closed
    for ver in (b"HTTP/1.2", b"HTTP/2.0", b"HTTP/0.9", b"HTTP/1.00"):
        V.append(("te-ver-" + ver.decode(), P([(b"Transfer-Encoding", b"chunked"), (b"Connection", b"keep-alive")], ch, v=ver)))
    V.append(("te-noversion", P([(b"Transfer-Encoding", b"chunked"), (b"Connection", b"keep-alive")], ch).replace(b"POST /a HTTP/1.1\r\n", b"POST /a\r\n", 1)))
    V.append(("te-http10-cl", P([(b"Transfer-Encoding", b"chunked"), (b"Content-Length", b"13"), (b"Connection", b"keep-alive")], ch, v=b"HTTP/1.0")))
    # chunk syntax
    C = lambda body: P([(b"Transfer-Encoding", b"chunked")], body)
    for name, body in (("size-plus", b"+3\r\nabc\r\n0\r\n\r\n"), ("size-0x", b"0x3\r\nabc\r\n0\r\n\r\n"), ("size-space", b"3 \r\nabc\r\n0\r\n\r\n"),
                       ("size-lead-space", b" 3\r\nabc\r\n0\r\n\r\n"), ("size-lf", b"3\nabc\r\n0\r\n\r\n"), ("size-barelf-end", b"3\n\r\nabc\r\n0\r\n\r\n"),
                       ("size-empty", b"\r\nabc\r\n0\r\n\r\n"), ("size-g", b"g\r\nabc\r\n0\r\n\r\n"), ("size-underscore", b"0_3\r\nabc\r\n0\r\n\r\n"),
                       ("ext-bad", b"3;a b\r\nabc\r\n0\r\n\r\n"), ("ext-noname", b"3;=v\r\nabc\r\n0\r\n\r\n"), ("ext-lf", b"3;a=b\n\r\nabc\r\n0\r\n\r\n"),
                       ("ext-unterminated-quote", b"3;a=\"b\r\nabc\r\n0\r\n\r\n"), ("ext-bws", b"3 ; a=b\r\nabc\r\n0\r\n\r\n"),
                       ("term-missing", b"3\r\nabc0\r\n\r\n"), ("term-lf", b"3\r\nabc\n0\r\n\r\n"), ("term-crcr", b"3\r\nabc\r\r0\r\n\r\n"), ("term-extra", b"3\r\nabcd\r\n0\r\n\r\n"),
                       ("empty-line-between", b"3\r\nabc\r\n\r\n0\r\n\r\n"),
                       ("trailer-nocolon", b"3\r\nabc\r\n0\r\nbad trailer\r\n\r\n"), ("trailer-barelf", b"3\r\nabc\r\n0\r\nX-T: a\nb\r\n\r\n"),
                       ("trailer-nul", b"3\r\nabc\r\n0\r\nX-T: a\x00b\r\n\r\n"), ("trailer-ws-colon", b"3\r\nabc\r\n0\r\nX-T : a\r\n\r\n"),
                       ("last-00", b"3\r\nabc\r\n00\r\n\r\n"), ("size-big", b"00000000000000000003\r\nabc\r\n0\r\n\r\n")):
        V.append(("chunk-" + name, C(body)))
    # header section syntax
    G = lambda extra: msg(headers=[HOST]).replace(b"Host: h\r\n", b"Host: h\r\n" + extra)
    for name, line in (("bare-lf", b"X-A: 1\nX-B: 2\r\n"), ("bare-cr", b"X-A: 1\rX-B: 2\r\n"), ("ws-before-colon", b"X-A : 1\r\n"), ("name-space", b"X A: 1\r\n"),
                       ("name-empty", b": 1\r\n"), ("no-colon", b"X-A 1\r\n"), ("name-paren", b"X(A): 1\r\n"), ("name-utf8", b"X-\xc3\xa9: 1\r\n"),
                       ("value-nul", b"X-A: a\x00b\r\n"), ("value-vt", b"X-A: a\x0bb\r\n"), ("value-del", b"X-A: a\x7fb\r\n"), ("value-obs", b"X-A: caf\xe9\r\n"),
                       ("fold-cont-lf", b"X-A: a\r\n b\nX-B: 2\r\n"), ("fold-cont-cr", b"X-A: a\r\n b\rX-B: 2\r\n"), ("fold-cont-lf-end", b"X-A: a\r\n b\n\r\n"),
                       ("fold-cont-lf-only", b"X-A: a\r\n \n\r\n"), ("fold-tab-lf", b"X-A: a\r\n\tb\n\r\n"), ("fold-cont-cr-end", b"X-A: a\r\n b\r\r\n"),
                       # refused lines that are not valid UTF-8 (what is quoted in a message must not decide the outcome)
                       ("bare-cr-obs", b"X-A: caf\xe9\rX-B: 2\r\n"), ("bare-lf-obs", b"X-A: \xff\xfe\nX-B: 2\r\n"), ("bare-cr-utf8cut", b"X-A: \xe2\x82\rX-B: 2\r\n"),
                       ("no-colon-obs", b"X-A\xe9 1\r\n"), ("name-obs", b"X-\xe9: 1\r\n"), ("fold-cont-cr-obs", b"X-A: a\r\n \xe9\rX-B: 2\r\n"),
                       ("value-empty", b"X-A:\r\n"), ("value-tabs", b"X-A:\t a \t\r\n"), ("host-dup", b"Host: other\r\n"), ("ctype-dup", b"Content-Type: a\r\nContent-Type: b\r\n")):
        V.append(("hdr-" + name, G(line)))
    V.append(("fold-first", msg().replace(b"GET /a HTTP/1.1\r\n", b"GET /a HTTP/1.1\r\n X-A: 1\r\n")))
    V.append(("fold-first-obs", msg().replace(b"GET /a HTTP/1.1\r\n", b"GET /a HTTP/1.1\r\n X-A: \xff\r\n")))
    # request line
    for name, line in (("two-sp", b"GET  /a HTTP/1.1"), ("tab-sep", b"GET\t/a HTTP/1.1"), ("trail-sp", b"GET /a HTTP/1.1 "), ("lead-sp", b" GET /a HTTP/1.1"),
                       ("ver-lower", b"GET /a http/1.1"), ("ver-11x", b"GET /a HTTP/1.10"), ("ver-2", b"GET /a HTTP/2.0"), ("no-ver", b"GET /a"),
                       ("method-paren", b"G(T /a HTTP/1.1"), ("no-target", b"GET HTTP/1.1"), ("target-nul", b"GET /a\x00b HTTP/1.1"), ("target-tab", b"GET /a\tb HTTP/1.1"),
                       ("extra-word", b"GET /a HTTP/1.1 x"), ("lf-only", b"GET /a HTTP/1.1\n"),
                       ("abs-bad-ipv6", b"GET http://[::1/ HTTP/1.1"), ("abs-bad-ipv6-2", b"GET http://[x]/ HTTP/1.1"), ("abs-bad-port", b"GET http://h:99999999/ HTTP/1.1"),
                       ("abs-brackets", b"GET http://h]/ HTTP/1.1")):
        V.append(("rl-" + name, line + CRLF + b"Host: h" + CRLF + CRLF))
    return V


def corpus(thorough, rng):
    """-> list of (name, stream)"""
    S = sentences()
    V = framing_variants()
    out = list(S) + list(V)
    follow = msg(target=b"/next", headers=[HOST])
    # pipelines: every sentence / variant followed by a plain request (is the byte after one message the start of the next?)
    for n, m in S + V:
        out.append((n + "+next", m + follow))
    for (n1, m1) in S[:8]:
        for (n2, m2) in S[4:10]:
            out.append((n1 + "+" + n2 + "+next", m1 + m2 + follow))
    # trailing partial message / garbage
    for n, m in S[:6]:
        out.append((n + "+partial", m + follow[:9]))
        out.append((n + "+garbage", m + b"\x00\x01\x02 garbage\r\n\r\n"))
    # single-byte mutations at every position of the framing-critical sentences
    reps = [0, 9, 10, 11, 13, 32, 43, 45, 48, 58, 59, 65, 95, 120, 127, 128, 0x85, 0xa0]
    targets = [S[4], S[7], S[8], S[9], S[1], S[12]] if not thorough else S
    for n, m in targets:
        positions = range(len(m)) if thorough else range(0, len(m), 1)
        for i in positions:
            for b in (reps if thorough else rng.sample(reps, 5)):
                out.append(("%s~%d=%d" % (n, i, b), m[:i] + bytes([b]) + m[i + 1:] + follow))
            if thorough or i % 2 == 0:
                out.append(("%s~del%d" % (n, i), m[:i] + m[i + 1:] + follow))
                out.append(("%s~dup%d" % (n, i), m[:i] + m[i:i + 1] + m[i:] + follow))
    return out
