"""C11 - nothing is executed after the server has decided to close a connection.

Close-race scenarios (closing message followed by a complete request, a partial
one or garbage, in the same read or a later one, lookahead 0/1/2/5) on the real
server under the deterministic scheduler; TLC judges the traces with the
monitor clauses P11_* of spec/Pipeline.tla."""
import errno

from checks import chan_common as cc
from checks import chan_random
from checks import chan_model

LEVEL = "model_checking"


def scenarios(thorough):
    P = lambda k: {"k": k, "kind": "plain"}
    out = []
    slow = [["readall_after_block", 1]]
    closers = [("close", {"k": 1, "kind": "close"}, {}), ("http10", {"k": 1, "kind": "http10"}, {}),
               ("bad", {"k": 1, "kind": "bad"}, {}), ("undelimitable", P(1), {1: {"cl": "larger"}}),
               ("http10 keep-alive with Transfer-Encoding", {"k": 1, "kind": "te10"}, {}),
               ("Transfer-Encoding and Content-Length", {"k": 1, "kind": "te_cl"}, {}),
               ("Transfer-Encoding and an empty Content-Length", {"k": 1, "kind": "te_cl_empty"}, {}),
               ("app-raises", P(1), {1: {"raise_at": 1, "chunks": [3, 3], "cl": "none"}})]
    followers = [("complete", [P(2)]), ("partial", [{"k": 2, "kind": "partial"}]), ("garbage", [{"k": 2, "kind": "garbage"}])]
    las = (0, 1, 2, 5) if thorough else (0, 1, 2)
    for cname, creq, apps in closers:
        for fname, freqs in followers:
            for la in las:
                if not thorough and (la == 2 and fname != "complete"):
                    continue
                for split in ("one", "each"):
                    if not thorough and split == "each" and la == 0:
                        continue
                    out.append(cc.mk([creq] + freqs, lookahead=la, workers=2, split=split, apps=apps,
                                     name="%s then %s, %s read, la=%d" % (cname, fname, "same" if split == "one" else "later", la)))
    # the close decision is taken while output is still pending (slow client)
    out.append(cc.mk([{"k": 1, "kind": "close"}, P(2)], lookahead=1, workers=2, room=0, split="each", extra_client=slow, name="close then complete, slow client la=1"))
    out.append(cc.mk([P(1), P(2)], lookahead=1, workers=2, room=0, split="each", extra_client=slow, apps={1: {"cl": "larger"}}, name="undelimitable then complete, slow client la=1"))
    # client fault: a send error decides the close while a pipelined request is queued
    out.append(cc.mk([P(1), P(2)], lookahead=1, workers=1, faults={"send": [errno.EINVAL]}, name="send fault EINVAL with pipelined request la=1"))
    out.append(cc.mk([P(1), P(2)], lookahead=1, workers=1, faults={"send": [errno.EPIPE]}, name="send fault EPIPE with pipelined request la=1"))
    for la in (0, 2):
        for e in (errno.EHOSTUNREACH, errno.EINVAL):
            out.append(cc.mk([P(1), P(2)], lookahead=la, workers=2, faults={"send": [e] * 4}, drains=False,
                             name="persistent send fault %s with pipelined request la=%d" % (errno.errorcode[e], la)))
    # a partial follower buffered before the decision, its rest arriving afterwards
    for cname, creq in (("close", {"k": 1, "kind": "close"}), ("http10", {"k": 1, "kind": "http10"})):
        for la in (1, 2):
            out.append(cc.mk([creq, P(2)], lookahead=la, workers=2, split="cutfollower", name="%s then a follower cut in its head, la=%d" % (cname, la)))
            out.append(cc.mk([creq, {"k": 2, "kind": "body", "blen": 20}], lookahead=la, workers=2, split="cutfollower", name="%s then a follower with a body, cut, la=%d" % (cname, la)))
    # the I/O thread tears the connection down after a send error while the worker is paused between two requests
    # (backlog above the mark at the end of the first, follower already queued)
    for la in (1, 2):
        out.append(cc.mk([P(1), P(2)], lookahead=la, workers=1, room=30, extra_client=[["read_after_block", 1, 40], ["read_after_block", 2, 50]], drains=False,
                         faults={"send": [None, None, None] + [errno.EHOSTUNREACH] * 6}, apps={1: {"chunks": []}, 2: {"chunks": [30]}},
                         adj={"outbuf_high_watermark": 50}, name="send error while the worker is paused between two requests, la=%d" % la))
        out.append(cc.mk([P(1), P(2)], lookahead=la, workers=1, room=30, extra_client=[["read_after_block", 1, 40], ["read_after_block", 2, 50]], drains=False,
                         faults={"send": [None, None, None] + [errno.EHOSTUNREACH] * 6}, apps={1: {"chunks": [60]}, 2: {"chunks": [30]}},
                         adj={"outbuf_high_watermark": 50}, name="send error while the worker is paused in write_soon, follower queued, la=%d" % la))
    # a recv error (not a disconnect) while requests are queued: nothing that was buffered is executed afterwards
    for la in (1, 2):
        for e in (errno.ETIMEDOUT, errno.EHOSTUNREACH):
            out.append(cc.mk([P(1), P(2), P(3)], lookahead=la, workers=1, split="each", faults={"recv": [None, None, e]}, drains=False,
                             name="recv#3 fails %s with requests queued, la=%d" % (errno.errorcode[e], la)))
            out.append(cc.mk([P(1), P(2)], lookahead=la, workers=2, split="each", faults={"recv": [None, e]}, drains=False,
                             name="recv#2 fails %s while the first request runs, la=%d" % (errno.errorcode[e], la)))
    # the application fails with an OSError after the head is out and socket errors are not logged: the truncated
    # response closes the connection all the same
    out.append(cc.mk([P(1), P(2)], lookahead=1, workers=2, apps={1: {"raise_at": 1, "chunks": [3, 3], "exc": "OSError"}}, adj={"log_socket_errors": False},
                     name="OSError from the application in mid-response (log_socket_errors off), then complete la=1"))
    out.append(cc.mk([P(1), P(2)], lookahead=0, workers=1, split="each", apps={1: {"raise_at": 1, "chunks": [3, 3], "exc": "OSError"}}, adj={"log_socket_errors": False},
                     name="OSError from the application in mid-response (log_socket_errors off), then complete later la=0"))
    return out


def run(chk, replay=None):
    scns = scenarios(chk.thorough)
    chan_model.model_check(chk, "C11", scns)
    n_pct, dfs = (800, 3000) if chk.thorough else (60, 300)
    cc.explore_and_validate(chk, "C11", scns, n_pct, dfs, bound=2, label="close-race")
    chan_random.explore(chk, "C11")
    chk.rule = ("cases = schedules of the real server over %d close-race scenarios (closing message x follower x same/later read x lookahead); "
                "evaluations = distinct traces judged by TLC; non-trivial = >= 2 requests executed or a close decision/teardown observed" % len(scns))
    chk.assumptions += ["a close decision is observed as the first write of will_close / close_when_flushed and, independently, as a closing response on the wire", "simulated kernel"]
