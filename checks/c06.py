"""C06 - oversize and malformed input is refused totally: error response, close, no crash.

Streams of the C01 corpus under a sweep of max_request_header_size /
max_request_body_size (a few bytes .. defaults, -1/0/+1 around the message
sizes) and read sizes, pumped sentences (every repeatable position repeated
10..10^3 times within TLC's reach, 10^4..10^5 for the no-crash clause only);
TLC judges with Framing.tla (clauses P06_* and the refusal clauses of P01_*)."""
import random

from checks import framing_common as fc
from checks import framing_gen as fg

LEVEL = "model_checking"
DEFAULT = {"maxh": 262144, "maxb": 1073741824}


def pumped(n):
    H = fg.HOST
    out = []
    out.append(("pump-cl-digits", fg.msg(method=b"POST", headers=[H, (b"Content-Length", b"1" * n)])))
    out.append(("pump-cl-zeros", fg.msg(method=b"POST", headers=[H, (b"Content-Length", b"0" * n + b"3")], body=b"abc")))
    out.append(("pump-cl-all-zeros", fg.msg(method=b"POST", headers=[H, (b"Content-Length", b"0" * n)])))
    out.append(("pump-cl-zeros-30", fg.msg(method=b"POST", headers=[H, (b"Content-Length", b"0" * n + b"30")], body=b"b" * 30)))
    out.append(("pump-token", fg.msg(headers=[H, (b"X" * n, b"v")])))
    out.append(("pump-value", fg.msg(headers=[H, (b"X-V", b"v" * n)])))
    out.append(("pump-fields", fg.msg(headers=[H] + [(b"X-%d" % i, b"v") for i in range(min(n, 300))])))
    out.append(("pump-fold", fg.msg(headers=[H, (b"X-F", b"a" + b"\r\n b" * min(n, 300))])))
    out.append(("pump-target", fg.msg(target=b"/" + b"a" * n, headers=[H])))
    out.append(("pump-method", fg.msg(method=b"M" * n, headers=[H])))
    out.append(("pump-chunk-size", fg.msg(method=b"POST", headers=[H, (b"Transfer-Encoding", b"chunked")], raw_body=b"0" * n + b"3\r\nabc\r\n0\r\n\r\n")))
    out.append(("pump-chunk-ext", fg.msg(method=b"POST", headers=[H, (b"Transfer-Encoding", b"chunked")], raw_body=b"3" + b";e=v" * min(n, 300) + b"\r\nabc\r\n0\r\n\r\n")))
    out.append(("pump-chunk-ext-unterminated-quote", fg.msg(method=b"POST", headers=[H, (b"Transfer-Encoding", b"chunked")], raw_body=b"3;e=\"" + b"a" * min(n, 60) + b"\r\nabc\r\n0\r\n\r\n")))
    out.append(("pump-trailer", fg.msg(method=b"POST", headers=[H, (b"Transfer-Encoding", b"chunked")], raw_body=b"3\r\nabc\r\n0\r\n" + b"X-T: v\r\n" * min(n, 300) + b"\r\n")))
    out.append(("pump-unterminated-control-line", fg.msg(method=b"POST", headers=[H, (b"Transfer-Encoding", b"chunked")], raw_body=b"3" * n)))
    out.append(("pump-unterminated-trailer", fg.msg(method=b"POST", headers=[H, (b"Transfer-Encoding", b"chunked")], raw_body=b"0\r\nX-T: " + b"v" * n)))
    out.append(("pump-unterminated-head", b"GET /a HTTP/1.1\r\nX-H: " + b"v" * n))
    out.append(("pump-empty-lines", b"\r\n" * min(n, 400) + fg.msg(headers=[H])))
    # optional white space around an empty field value, valid and followed by a control byte (regex backtracking)
    out.append(("pump-ows-empty-value", fg.msg(headers=[H]).replace(b"Host: h\r\n", b"Host: h\r\nX-E:" + b" " * n + b"\r\n")))
    out.append(("pump-ows-then-ctl", fg.msg(headers=[H]).replace(b"Host: h\r\n", b"Host: h\r\nX-E:" + b" " * n + b"\x01\r\n")))
    out.append(("pump-ows-tabs-then-ctl", fg.msg(headers=[H]).replace(b"Host: h\r\n", b"Host: h\r\nX-E: v" + b" \t" * (n // 2) + b"\x7f\r\n")))
    return out


def run(chk, replay=None):
    # HTTPRequestParser.received transcribed (spec/ParserOps.tla): on the model, under every segmentation, a head that is
    # not over within max_request_header_size is refused with 431 and the byte count never passes the limit unnoticed
    from checks import parser_model
    parser_model.model_check(chk, "C06")
    rng = random.Random(chk.seed)
    sent = fg.sentences() + fg.framing_variants()
    follow = fg.msg(target=b"/next", headers=[fg.HOST])
    items = []
    # limit sweep: header and body limits at (size) -1/0/+1, tiny limits, defaults
    for n, s in sent:
        m = s + follow
        head = s.find(b"\r\n\r\n") + 4
        body = len(s) - head
        hl = sorted({1, 2, 8, head - 1, head, head + 1, len(m)} - {0, -1})
        for mh in hl if (chk.thorough or not n.startswith(("cl-", "te-", "chunk-", "hdr-", "rl-"))) else (head, head + 1):
            items.append(("%s@maxh=%d" % (n, mh), m, {"maxh": max(mh, 1), "maxb": 1073741824}, "sampled", chk.seed + len(items)))
        if body > 0:
            for mb in sorted({1, body - 1, body, body + 1, body + 40} - {0}):
                items.append(("%s@maxb=%d" % (n, mb), m, {"maxh": 262144, "maxb": max(mb, 1)}, "sampled", chk.seed + len(items)))
    # pumped sentences within TLC's reach, limits scaled accordingly
    for n in (10, 100, 1000):
        for name, s in pumped(n):
            for lim in (DEFAULT, {"maxh": 512, "maxb": 256}, {"maxh": n + 64, "maxb": max(n // 2, 4)}):
                items.append(("%s*%d" % (name, n), s + (follow if len(s) < 3000 else b""), lim, "sampled" if n <= 100 else "none", chk.seed + len(items)))
            # limits well below the stream, delivered in reads that are each smaller than the limit
            lim = {"maxh": max(n // 2, 24), "maxb": max(n // 4, 8)}
            items.append(("%s*%d" % (name, n), s + (follow if len(s) < 3000 else b""), lim, "sampled" if n <= 100 else "pieces", chk.seed + len(items)))
            if "unterminated" in name:
                # ... and really unterminated: nothing follows
                items.append(("%s*%d (alone)" % (name, n), s, lim, "sampled" if n <= 100 else "pieces", chk.seed + len(items)))
    traces, meta, rej = fc.execute(chk, "C06", fc.C06, items, batch=25)
    for t in traces:
        rec = meta[str(t["id"])]
        refused = any(e["k"] == "resp" for v in rec["variants"] for e in v["obs"])
        chk.count(1, ("s", t["id"]) if refused else None)
    # beyond TLC's reach: totality only (no exception, no hang, bounded consumption), observed by the harness
    from wv import h_framing
    big = 0
    fs = h_framing.FramingServer()
    try:
        for n in (10000, 100000) if chk.thorough else (10000, 50000):
            for name, s in pumped(n):
                for cuts in ((), tuple(range(8192, len(s), 8192))):
                    o = fs.run(s, cuts)
                    big += 1
                    codes = [e["code"] for e in o["obs"] if e["k"] == "resp"]
                    if o["raised"] or o["hang"]:
                        chk.violation({"kind": "totality", "family": name, "raised": o["raised"], "hang": o["hang"]},
                                      "pumped stream %s*%d (%d bytes, %d reads): raised=%s hang=%s errors=%s" % (name, n, len(s), len(cuts) + 1, o["raised"], o["hang"], o["errors"][:2]),
                                      replay={"family": name, "n": n})
                    elif name in ("pump-cl-all-zeros", "pump-cl-zeros", "pump-cl-zeros-30") and len(s) < 262144 and not cuts and (codes or [e["k"] for e in o["obs"]][:1] != ["app"]):
                        # a number that is only padded with zeros is still that number: the request is served
                        chk.violation({"kind": "totality", "family": name, "codes": codes}, "zero-padded Content-Length (%d digits) was not served: %s" % (n, [(e["k"], e.get("code")) for e in o["obs"]]))
                    elif name == "pump-cl-zeros-30" and len(s) < 262144 and not cuts and [len(e.get("body", [])) for e in o["obs"] if e["k"] == "app"][:1] != [30]:
                        chk.violation({"kind": "totality", "family": name, "codes": codes}, "Content-Length 0..030 (%d digits): body of %s bytes delivered" % (n, [len(e.get("body", [])) for e in o["obs"] if e["k"] == "app"]))
                    elif any(c not in (400, 413, 431, 501) for c in codes):
                        chk.violation({"kind": "totality", "family": name, "codes": codes}, "pumped stream %s*%d answered with %s" % (name, n, codes))
    finally:
        fs.close()
    chk.extra["pumped_beyond_tlc"] = big
    # the refusal under concurrency: error response, then closure, and nothing consumed or served after it
    from checks import chan_common as cc
    P = lambda k: {"k": k, "kind": "plain"}
    scns = []
    for kind in ("bad", "toolarge"):
        for la in (0, 1):
            for split in ("one", "each"):
                scns.append(cc.mk([{"k": 1, "kind": kind}, P(2)], lookahead=la, workers=2, split=split, name="%s then plain, %s read, la=%d" % (kind, "same" if split == "one" else "later", la)))
    scns.append(cc.mk([P(1), P(2)], lookahead=0, workers=2, split="each", adj={"max_request_header_size": 30}, name="oversize head (431) then plain, later read"))
    for s_ in scns:
        if "oversize" in s_["name"]:
            for r in s_["conns"][0]["requests"]:
                r["kind"] = "plain"
    n_pct, dfs = (500, 2000) if chk.thorough else (60, 300)
    cc.explore_and_validate(chk, "C06", scns, n_pct, dfs, bound=2, label="refusal")
    rec = meta[str(len(traces) // 2)]
    chk.sample({"name": rec["name"], "limits": rec["limits"], "stream_prefix": rec["stream"][:120].decode("latin-1"), "observation": [(e["k"], e["code"]) for e in rec["variants"][0]["obs"]]})
    chk.rule = ("streams = sentences and malformed variants of the C01 corpus under header/body limits at size-1/size/size+1, tiny limits and defaults, plus pumped sentences (each repeatable grammar position x10, x100, x1000) under default, small and proportional limits, each in one piece / byte-at-a-time / sampled cuts; "
                "TLC judges refusal status, closure and non-delivery with Framing.tla; non-trivial = a stream that is refused; pumped x10^4..10^5 are only observed for exceptions, hangs and status (see assumptions)")
    chk.assumptions += ["'never raises / never hangs' is observed (exception capture + step budget) on the executed streams, not proved",
                        "for chunked bodies the limit may be counted on wire bytes (the statement says 'body reaches'): the specification admits 413 from the wire count and requires it from the decoded count"]
