"""C17 - buffers are faithful byte queues across all representation changes.

spec/Buffer.tla, spec/ROBuffer.tla.  TLC (1) model-checks the implementation-
shaped buffer model against the abstract queue for all histories, (2) judges
every recorded history of the REAL OverflowableBuffer / ReadOnlyFileBasedBuffer
(exhaustive short histories with the string limit scaled down to the model's
L, plus seeded random long histories at the real 8 KiB limit)."""
import io
import itertools
import random

from wv import tlc, tv
from wv.core import MachineryFailure

LEVEL = "model_checking"


def stream(lo, hi):
    return bytes(k % 251 for k in range(lo, hi))


def runs(data):
    """run-length encoding: consecutive (mod 251) byte values form one run"""
    out = []
    for x in data:
        if out and (out[-1][0] + out[-1][1]) % 251 == x:
            out[-1][1] += 1
        else:
            out.append([x, 1])
    return out


def rep_of(buf):
    from waitress import buffers
    inner = getattr(buf, "buf", None)
    if inner is None:
        return "none"
    if isinstance(inner, buffers.TempfileBasedBuffer):
        return "tempfile"
    if isinstance(inner, buffers.BytesIOBasedBuffer):
        return "bytesio"
    return type(inner).__name__


def run_history(ops, overflow):
    """Execute ops on a fresh real OverflowableBuffer; return the event list."""
    from waitress.buffers import OverflowableBuffer
    buf = OverflowableBuffer(overflow)
    appended = 0
    ev = []
    try:
        for op in ops:
            kind = op[0]
            e = {"op": kind, "n": 0, "prune": False, "r": []}
            if kind == "append":
                e["n"] = op[1]
                buf.append(stream(appended, appended + op[1]))
                appended += op[1]
            elif kind == "peek":
                e["n"] = op[1]
                e["r"] = runs(buf.get(op[1]))
            elif kind == "getskip":
                e["n"] = op[1]
                e["r"] = runs(buf.get(op[1], True))
            elif kind == "skip":
                n = op[1]
                if n == "all":
                    n = buf.__len__()
                if n > buf.__len__():
                    n = buf.__len__()
                e["n"] = n
                e["prune"] = bool(op[2])
                buf.skip(n, op[2])
            elif kind == "getfile":
                f = buf.getfile()
                p = f.tell()
                e["r"] = runs(f.read())
                f.seek(p)
            e["len"] = buf.__len__()
            e["rep"] = rep_of(buf)
            ev.append(e)
    except Exception as ex:  # an exception inside the quantifier is a failure of the property
        ev.append({"op": "raised", "n": 0, "prune": False, "r": [], "len": -1, "rep": repr(ex)[:80]})
    finally:
        try:
            buf.close()
        except Exception:
            pass
    return ev


def alphabet(L):
    sizes = [0, 1, L - 1, L, L + 1]
    ops = [("append", n) for n in sizes]
    ops += [("peek", n) for n in (-1, 1, L + 1)]
    ops += [("getskip", n) for n in (-1, 1, L - 1)]
    ops += [("skip", n, p) for n in (1, L - 1, "all") for p in (True, False)]
    ops += [("getfile",)]
    return ops


def ro_history(F, p0, seekable, ops):
    from waitress.buffers import ReadOnlyFileBasedBuffer

    class NoSeek(io.RawIOBase):
        def __init__(self, data):
            self._b = io.BytesIO(data)

        def readable(self):
            return True

        def seekable(self):
            return False

        def readinto(self, b):
            d = self._b.read(len(b))
            b[: len(d)] = d
            return len(d)

        def tell(self):
            return self._b.tell()

    data = stream(0, F)
    f = io.BytesIO(data)
    f.seek(p0)
    if not seekable:
        f = NoSeek(data)
        f._b.seek(p0)
    rb = ReadOnlyFileBasedBuffer(f)
    ev = []
    try:
        for op in ops:
            e = {"op": op[0], "n": op[1], "r": [], "ret": 0}
            if op[0] == "prepare":
                e["ret"] = rb.prepare(None if op[1] < 0 else op[1])
            elif op[0] == "peek":
                if not seekable:
                    continue
                e["r"] = runs(rb.get(op[1]))
            elif op[0] == "getskip":
                e["r"] = runs(rb.get(op[1], True))
            elif op[0] == "skip":
                n = min(op[1], rb.remain)
                e["n"] = n
                if not seekable:
                    continue
                rb.skip(n, True)
            e["tell"] = f.tell()
            e["remain"] = rb.remain
            ev.append(e)
    except Exception as ex:
        ev.append({"op": "raised", "n": 0, "r": [], "ret": 0, "tell": -1, "remain": -1, "exc": repr(ex)[:80]})
    return ev


def run(chk, replay=None):
    from waitress import buffers
    rng = random.Random(chk.seed)
    L = 4
    # ---- 1. MC: design-level, all histories over the size alphabet --------
    mc_cfg = """SPECIFICATION Spec
CONSTANTS L = %d
OV = %d
Sizes = {0,1,%d,%d,%d}
MaxBytes = %d
INVARIANT Fidelity
INVARIANT LenExact
INVARIANT PeeksFaithful
INVARIANT GetSkipExact
INVARIANT FileViewFaithful
INVARIANT PosSane
"""
    maxb = 18 if chk.thorough else 12
    for ov in range(0, L + 3):
        r = chk.add_tlc("MC:Buffer OV=%d" % ov, tlc.run("Buffer", mc_cfg % (L, ov, L - 1, L, L + 1, maxb), workers=4, deadlock=False),
                        "all histories over sizes {0,1,L-1,L,L+1}, L=%d, <=%d bytes" % (L, maxb))
        if r.violated:
            chk.violation({"kind": "model", "invariant": r.violated, "OV": ov},
                          "Buffer.tla (the model of the code) violates %s: %s" % (r.violated, r.trace[-2:]))
    ro_cfg = """SPECIFICATION Spec
CONSTANTS MaxF = %d
Sizes = {0,1,2,3,5}
INVARIANT NeverMoreThanPrepared
INVARIANT PositionConsistent
INVARIANT PeekInBounds
"""
    r = chk.add_tlc("MC:ROBuffer", tlc.run("ROBuffer", ro_cfg % (5 if chk.thorough else 4), workers=4, deadlock=False),
                    "read-only file buffer, files 0..MaxF, all prepare/get/skip histories")
    if r.violated:
        chk.violation({"kind": "model", "invariant": r.violated}, "ROBuffer.tla violates %s" % r.violated)

    # ---- 2. real OverflowableBuffer, string limit scaled to L --------------
    ops = alphabet(L)
    depth = 4 if chk.thorough else 3
    saved = buffers.STRBUF_LIMIT
    jobs = []
    try:
        buffers.STRBUF_LIMIT = L
        for ov in range(0, L + 3):
            traces = []
            hist_of = {}
            for d in range(1, depth + 1):
                for h in itertools.product(ops, repeat=d):
                    if d > 1 and h[0][0] != "append":
                        continue  # a history that starts on the empty buffer is covered at d=1
                    tidn = len(traces)
                    traces.append({"id": tidn, "cfg": {"OV": ov}, "ev": run_history(h, ov)})
                    hist_of[str(tidn)] = h
            nrand = 3000 if chk.thorough else 400
            for _ in range(nrand):
                h = tuple(rng.choice(ops) for _ in range(rng.randint(5, 14)))
                tidn = len(traces)
                traces.append({"id": tidn, "cfg": {"OV": ov}, "ev": run_history(h, ov)})
                hist_of[str(tidn)] = h
            jobs.append((L, ov, traces, hist_of, "scaled"))
    finally:
        buffers.STRBUF_LIMIT = saved
    # ---- 3. real limits: sizes around 8192 and around the overflow ---------
    RL = buffers.STRBUF_LIMIT
    for ov in (0, 1, RL - 1, RL, RL + 1, 3 * RL, 1 << 20):
        around = sorted({0, 1, RL - 1, RL, RL + 1, max(ov - 1, 0), ov, ov + 1, 2 * RL + 3, 100})
        around = [a for a in around if a <= (1 << 20) + 1]
        traces, hist_of = [], {}
        n = (120 if chk.thorough else 25) if ov < (1 << 20) else (12 if chk.thorough else 3)
        for _ in range(n):
            h = []
            for _k in range(rng.randint(8, 40 if ov < (1 << 20) else 10)):
                c = rng.random()
                if c < 0.4:
                    h.append(("append", rng.choice(around)))
                elif c < 0.55:
                    h.append(("peek", rng.choice([-1, 1, RL, RL + 1, 65536])))
                elif c < 0.7:
                    h.append(("getskip", rng.choice([-1, 1, RL - 1, 100, 18000])))
                elif c < 0.92:
                    h.append(("skip", rng.choice([1, RL - 1, 100, "all", 18000]), rng.random() < 0.7))
                else:
                    h.append(("getfile",))
            tidn = len(traces)
            traces.append({"id": tidn, "cfg": {"OV": ov}, "ev": run_history(h, ov)})
            hist_of[str(tidn)] = h
        jobs.append((RL, ov, traces, hist_of, "real-size"))

    nontriv = 0
    for (lim, ov, traces, hist_of, kind) in jobs:
        consts = "CONSTANTS L = %d\nOV = %d\n" % (lim, ov)
        rej, drift = tv.validate(chk, "Trace_Buffer", traces, consts, name="TV:Buffer %s L=%d OV=%d" % (kind, lim, ov), workers=4)
        for t in traces:
            reps = {e["rep"] for e in t["ev"]}
            chk.count(1, ("buf", kind, ov, t["id"]) if len(reps) > 1 else None)
        for i, (pos, clauses) in rej.items():
            h = hist_of[i]
            chk.violation({"kind": "overflowable", "clauses": clauses, "limit": kind},
                          "history %s (STRBUF_LIMIT=%d overflow=%d) event %d: %s; recorded=%s" % (
                              list(h)[:pos], lim, ov, pos, clauses, traces[int(i)]["ev"][max(0, pos - 2):pos]),
                          replay={"history": h, "limit": lim, "overflow": ov})
        for i, (pos, clauses) in list(drift.items())[:3]:
            chk.note_drift("Buffer model vs code: %s at event %d of history %s (L=%d OV=%d)" % (clauses, pos, list(hist_of[i])[:pos], lim, ov))
        for t in traces:
            if any(e["op"] == "raised" for e in t["ev"]):
                chk.violation({"kind": "overflowable", "clauses": ["raised"]},
                              "history %s raised %s" % (hist_of[str(t["id"])], t["ev"][-1]["rep"]))
    if jobs:
        chk.sample({"overflowable_history": [list(o) for o in jobs[3][3]["40"]], "events": jobs[3][2][40]["ev"]})

    # ---- 4. read-only file buffer ------------------------------------------
    traces, meta = [], {}
    sizes = [-1, 0, 1, 2, 3, 5, 9]
    maxF = 6 if chk.thorough else 4
    opsr = [("peek", n) for n in (-1, 1, 3)] + [("getskip", n) for n in (-1, 1, 2)] + [("skip", n) for n in (1, 2)]
    for F in range(0, maxF + 1):
        for p0 in range(0, F + 1):
            for seek in (True, False):
                for size in sizes:
                    for d in range(0, 3 if not chk.thorough else 4):
                        for h in itertools.product(opsr, repeat=d):
                            hh = (("prepare", size),) + h
                            ev = ro_history(F, p0, seek, hh)
                            tidn = len(traces)
                            traces.append({"id": tidn, "cfg": {"F": F, "p0": p0, "seekable": seek}, "ev": ev})
                            meta[str(tidn)] = (F, p0, seek, hh)
    rej, drift = tv.validate(chk, "Trace_ROBuffer", traces, "", name="TV:ROBuffer", workers=8)
    for t in traces:
        chk.count(1, ("ro", t["id"]) if len(t["ev"]) > 1 and t["cfg"]["F"] > 0 else None)
        if any(e["op"] == "raised" for e in t["ev"]):
            chk.violation({"kind": "readonly", "clauses": ["raised"]}, "read-only buffer %s raised %s" % (meta[str(t["id"])], t["ev"][-1]))
    for i, (pos, clauses) in rej.items():
        chk.violation({"kind": "readonly", "clauses": clauses},
                      "file len/pos/seekable/ops %s event %d: %s recorded=%s" % (meta[i], pos, clauses, traces[int(i)]["ev"][:pos]),
                      replay={"ro": meta[i]})
    for i, (pos, clauses) in list(drift.items())[:3]:
        chk.note_drift("ROBuffer model vs code: %s at event %d of %s" % (clauses, pos, meta[i]))
    chk.sample({"readonly_case": meta["100"], "events": traces[100]["ev"]})
    chk.rule = ("cases = operation histories executed on the real buffer classes and judged by TLC against Buffer.tla/ROBuffer.tla; "
                "exhaustive over the op alphabet up to depth %d (string limit scaled to 4, overflow 0..6) + seeded random histories at the real 8192 limit; "
                "non-trivial = history during which the buffer changed representation (or, read-only: consumed from a non-empty file)" % depth)
    chk.assumptions += ["byte i of the stream carries value i mod 251: a fault that shifts content by a multiple of 251 bytes is invisible",
                        "STRBUF_LIMIT is scaled down by patching waitress.buffers.STRBUF_LIMIT for the exhaustive part",
                        "prune() is outside the quantifier (no server path calls it)"]
