"""C09 - application failures are contained and the iterable is always closed.

Application scripts (C03) x failure point (call, start_response, every
iteration step, every write, close) x exception class (Exception, OSError
subclass, BaseException subclass) x expose_tracebacks x log_socket_errors x
client disconnect at every step, executed on the real server; TLC judges the
outcome with the failure ladder of spec/Response.tla (clauses P09_*).
A second part runs failing applications under the real worker pool to observe
that the worker survives and serves the next connection."""
from checks import resp_common as rc

LEVEL = "model_checking"


def cases(thorough):
    out = []
    chunk_lists = [[3], [2, 1], [0, 2], [0, 0]] + ([[1, 1, 1], []] if thorough else [])
    for exc in ("Exception", "OSError", "BaseException"):
        for expose in (False, True):
            for lse in (True, False):
                for (version, conn) in (("1.1", ""), ("1.0", "keep-alive")) if not thorough else (("1.1", ""), ("1.1", "close"), ("1.0", "keep-alive"), ("1.0", "")):
                    for cl in ("none", "exact"):
                        for chunks in chunk_lists:
                            for kind, use_write in (("list", False), ("gen", False), ("gen", True), ("noclose", False)):
                                pts = [("call", 0), ("start_response", 0)] + ([("close", 0)] if kind != "noclose" else [])
                                pts += [("write" if use_write else "iter", k) for k in range(len(chunks) + 1)]
                                for fail, k in pts:
                                    out.append(rc.base_case(cl=cl, chunks=chunks, kind=kind, use_write=use_write, fail=fail, fail_k=k, exc=exc,
                                                            version=version, conn=conn, expose=expose, lse=lse))
    # client disconnect at every step, with and without a failure; iterable and file wrapper
    for lse in (True, False):
        for chunks in ([3, 3, 3], [2, 0, 2]):
            for kind, use_write in (("list", False), ("gen", False), ("gen", True), ("file", False), ("file_noseek", False)):
                for d in range(0, len(chunks) + 1):
                    if kind.startswith("file") and d > 0:
                        continue
                    if use_write and d >= len(chunks):
                        continue
                    for mode in ("epipe", "eof_seen"):
                        a = rc.base_case(cl="none", chunks=chunks, kind=kind, use_write=use_write, lse=lse, disc=d)
                        b = rc.base_case(cl="exact", chunks=chunks, kind=kind, use_write=use_write, lse=lse, disc=d, version="1.0", conn="keep-alive")
                        a["disc_mode"] = b["disc_mode"] = mode
                        out += [a, b]
    for kind in ("file", "file_noseek"):
        for cl in ("none", "exact", "larger"):
            out.append(rc.base_case(cl=cl, chunks=[3, 2], kind=kind))
    return out


def run(chk, replay=None):
    cs = cases(chk.thorough)
    evs, rej = rc.judge(chk, "C09", rc.C09, cs)
    for i, e in enumerate(evs):
        chk.count(1, ("c09", i) if (e["script"]["fail"] != "none" or e["disc"] >= 0) else None)
    # client disconnect while the worker is paused in write_soon (output above the high watermark): the worker is
    # released, the request aborted and the iterable closed - real worker pool under the deterministic scheduler
    import errno
    from checks import chan_common as cc
    from checks import chan_random
    P = lambda k: {"k": k, "kind": "plain"}
    scns = []
    # a file handed to wsgi.file_wrapper is closed by the server whatever happens to the connection
    for la in (0, 1):
        for how in ("close", "reset"):
            scns.append(cc.mk([P(1)], lookahead=la, room=0, extra_client=[[how]], drains=False,
                              apps={1: {"chunks": [120], "filewrapper": True, "cl": "exact"}}, name="file_wrapper response, client %s, la=%d" % (how, la)))
    for la in (0, 1):
        for how in ("close", "reset"):
            scns.append(cc.mk([P(1)], lookahead=la, room=10, extra_client=[["read", 5], [how]], drains=False,
                              apps={1: {"chunks": [40, 40, 40], "cl": "none"}}, adj={"outbuf_high_watermark": 30},
                              name="producer paused above the watermark, lookahead=%d, client %s" % (la, how)))
    for e in (errno.EPIPE, errno.EINVAL, errno.ETIMEDOUT):
        for nth in (2, 3):
            scns.append(cc.mk([P(1)], room=10, extra_client=[["read", 20], ["read", 20], ["readall"]], drains=False,
                              faults={"send": [None] * nth + [e]}, apps={1: {"chunks": [40, 40, 40], "cl": "none"}},
                              adj={"outbuf_high_watermark": 30}, name="producer paused above the watermark, send#%d fails %s" % (nth + 1, errno.errorcode[e])))
    for e in (errno.EINVAL, errno.ETIMEDOUT):
        scns.append(cc.mk([P(1)], room=10, extra_client=[["read", 20], ["read", 20], ["readall"]], drains=False,
                          faults={"send": [None] * 2 + [e]}, apps={1: {"chunks": [40, 40, 40]}},
                          adj={"outbuf_high_watermark": 30, "log_socket_errors": False},
                          name="producer paused above the watermark, sends fail %s from #3 on, log_socket_errors off" % errno.errorcode[e]))
    # the application fails while a pipelined request is already buffered behind it: one error response, closure,
    # nothing further executed
    for la in (0, 1):
        for split in ("one", "each"):
            for spec in ({"raise": "call"}, {"raise_at": 0, "chunks": [3]}, {"raise_at": 1, "chunks": [3, 3], "cl": "none"}):
                scns.append(cc.mk([P(1), P(2)], lookahead=la, workers=2, split=split, apps={1: spec},
                                  name="application fails (%s), follower in %s read, la=%d" % (sorted(spec.items())[-1], "the same" if split == "one" else "a later", la)))
    n_pct, dfs = (500, 2000) if chk.thorough else (50, 250)
    cc.explore_and_validate(chk, "C09", scns, n_pct, dfs, bound=2, label="paused-producer")
    chan_random.explore(chk, "C09", bind=False)
    chk.exhaustive = True
    mid = len(cs) // 3
    chk.sample({"case": cs[mid], "observation": {k: v for k, v in evs[mid]["obs"].items() if k in ("closed", "escaped", "iter_closed", "file_closed", "traceback_on_wire")}})
    chk.rule = ("application script x failure point (call, start_response, each iteration step / write, close) x exception class x expose_tracebacks x log_socket_errors, "
                "plus client disconnect before every step incl. the file-wrapper hand-over: %d exchanges; non-trivial = a failure or a disconnect occurs" % len(cs))
    chk.assumptions += ["'the worker survives' is observed as: no exception escapes HTTPChannel.service() (the pool's catch-all is not relied upon)",
                        "a disconnect is injected as: send() fails with EPIPE from that step on and the channel has seen the EOF (connected False)"]
