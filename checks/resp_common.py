"""Shared by C03 / C08 / C09: run scripted exchanges on the real server and let
TLC judge them with spec/Response.tla."""
import itertools
import json

from wv import appscript, tv
from wv.par import pmap

C03 = ["P03_wire_is_a_sequence_of_complete_responses", "P03_every_request_gets_a_response", "P03_client_recovers_status",
       "P03_response_version_matches_request", "P03_client_recovers_application_headers", "P03_client_recovers_body_cut_at_declared_length",
       "P03_response_is_delimited_by_its_own_headers", "P03_undelimitable_response_closes_the_connection",
       "P03_last_response_announces_connection_close", "P03_unannounced_close_means_next_request_is_served",
       "P03_http10_without_keepalive_is_closed", "P03_close_delimited_body_is_announced_and_closed", "P03_chunked_only_to_http11",
       "P03_failure_after_the_head_closes_the_connection", "P03_persistence_signal_is_unambiguous"]
C08 = ["P08_offending_strings_are_refused_with_500", "P08_clean_strings_are_not_refused", "P08_only_CR_LF_in_the_head_are_line_terminators",
       "P08_refused_strings_are_never_emitted", "P08_each_application_field_is_one_head_line", "P08_other_head_lines_are_server_fields_only",
       "P08_status_line_carries_the_application_status"]
C09 = ["P09_no_exception_escapes_to_worker_or_loop", "P09_no_traceback_unless_expose_tracebacks", "P09_failure_before_output_gives_one_complete_500",
       "P09_connection_closed_after_application_failure", "P09_no_further_bytes_after_failure_once_output_began",
       "P09_iterable_closed_exactly_once", "P09_wrapped_file_closed_exactly_once", "P09_disconnected_client_connection_closed", "P09_application_called_once"]

STATUSES = [("200 OK", 200), ("204 No Content", 204), ("304 Not Modified", 304), ("404 Not Found", 404)]


def cp(s):
    """code points of a str, <<-1>> for anything that is not a str"""
    if not isinstance(s, str):
        return [-1]
    return [ord(c) for c in s]


def run_case(case):
    from wv.core import repo_on_path
    repo_on_path()
    sc = dict(case["script"])
    script = {"status": sc["status"]["text"], "cl": sc["cl"], "chunks": sc["chunks"], "kind": sc["kind"], "use_write": sc["use_write"],
              "exc": sc.get("exc", "Exception")}
    if sc.get("write_first", -1) >= 0:
        script["write_first"] = sc["write_first"]
    if sc["fail"] != "none":
        script["fail"] = [sc["fail"], sc.get("fail_k", 0)]
    if "py_headers" in case:
        script["headers"] = case["py_headers"]
        script["status"] = case["py_status"]
    for k in ("sr_twice", "mutate_after", "swallow", "mutate_inner", "file_offset"):
        if k in case:
            script[k] = case[k]
    adj = {"expose_tracebacks": case["cfg"]["expose"], "log_socket_errors": case["cfg"]["log_socket_errors"]}
    if case.get("disc_mode") == "eof_seen":
        adj["channel_request_lookahead"] = 1
    obs = appscript.exchange(script, case["req"], adj=adj, disconnect_at=(case["disc"] if case["disc"] >= 0 else None),
                             disc_mode=case.get("disc_mode", "epipe"), room=case.get("room"), take=case.get("take", 0))
    # head split into lines for the string model
    head = bytes(obs["head_raw"])
    lines = head[:-4].split(b"\r\n") if head.endswith(b"\r\n\r\n") else []
    obs["head_lines"] = [list(l) for l in lines]
    obs["line_names"] = [(l.split(b":", 1)[0].decode("latin-1").lower() if b":" in l else "") for l in lines]
    st = lines[0].split(b" ", 1)[1] if lines and b" " in lines[0] else b""
    obs["status_line"] = list(st)
    on_wire = False
    for s_ in case.get("offending", []):
        if isinstance(s_, str) and len(s_) >= 2 and ("\r" in s_ or "\n" in s_ or s_.startswith("hopval")):
            try:
                if s_.encode("latin-1") in head:
                    on_wire = True
            except UnicodeEncodeError:
                pass
    obs["app_strings_on_wire"] = on_wire
    ev = {k: v for k, v in case.items() if k not in ("py_headers", "py_status", "sr_twice", "mutate_after", "mutate_inner", "offending", "file_offset", "room", "take")}
    ev["swallow"] = bool(case.get("swallow"))
    ev["obs"] = obs
    return ev


def judge(chk, pid, focus, cases, label=""):
    evs = pmap(run_case, cases, chunksize=64)
    traces = [{"id": i, "cfg": {}, "ev": [e]} for i, e in enumerate(evs)]
    consts = "CONSTANTS Focus = {%s}\n" % ", ".join('"%s"' % c for c in focus)
    rej, drift = tv.validate(chk, "Response", traces, consts, name="TV:Response %s %s" % (pid, label), workers=8)
    for i, (pos, clauses) in rej.items():
        e = evs[int(i)]
        brief = {k: e[k] for k in ("req", "cfg", "disc") if k in e}
        brief["script"] = {k: v for k, v in e["script"].items()}
        if "strs" in e:
            brief["strs"] = {"status": "".join(chr(c) if c >= 0 else "<non-str>" for c in e["strs"]["status"]),
                             "fields": [["".join(chr(c) if c >= 0 else "<non-str>" for c in f["n"]), "".join(chr(c) if c >= 0 else "<non-str>" for c in f["v"])] for f in e["strs"]["fields"]]}
        o = e["obs"]
        ob = {"responses": [{k: r[k] for k in ("status", "framing", "complete", "blen", "close", "keepalive")} for r in o["responses"]],
              "closed": o["closed"], "garbage": o["garbage"], "wire_error": o["wire_error"], "escaped": o["escaped"], "loop_errors": o["loop_errors"],
              "iter_closed": o["iter_closed"], "file_closed": o["file_closed"], "traceback_on_wire": o["traceback_on_wire"]}
        sig = {"kind": "exchange", "clauses": sorted(clauses)}
        sig.update(classify(e))
        chk.violation(sig, "%s -> %s violates %s" % (json.dumps(brief)[:700], json.dumps(ob)[:600], sorted(clauses)), replay={"case": cases[int(i)]})
    return evs, rej


def classify(e):
    sc = e["script"]
    failed = sc["fail"] != "none"
    return {"exc": sc.get("exc", "") if failed else "", "failed": failed,
            "log_socket_errors": e["cfg"]["log_socket_errors"], "disc": e["disc"] >= 0}


def base_case(status=("200 OK", 200), cl="none", chunks=(2, 1), kind="list", use_write=False, fail="none", fail_k=0, exc="Exception",
              version="1.1", conn="", method="GET", expose=False, lse=True, disc=-1, write_first=-1):
    return {"script": {"status": {"text": status[0], "code": status[1]}, "cl": cl, "chunks": list(chunks), "kind": kind, "use_write": use_write,
                       "fail": fail, "fail_k": fail_k, "exc": exc, "write_first": write_first},
            "req": {"version": version, "conn": conn, "method": method}, "cfg": {"expose": expose, "log_socket_errors": lse}, "disc": disc,
            "strs": {"status": cp(status[0]), "fields": [{"n": cp("X-App"), "v": cp("v1"), "lname": "x-app"}]}}
