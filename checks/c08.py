"""C08 - applications cannot split or inject into the response head.

Status strings, header names and values over the class alphabet (plain, CR, LF,
NUL, VT, colon, space, non-latin-1, empty, non-str) with the offending
character at every position, both start_response calls, header lists mutated
after the call, hop-by-hop names; executed on the real server; TLC judges the
head bytes with the string model of spec/Response.tla (clauses P08_*)."""
from checks import resp_common as rc

LEVEL = "model_checking"

BAD = ["\r", "\n", "\r\n", "\x00", "\x0b", ":", " ", "Ā", "\xe9"]
NONSTR = [b"bytes", 7, None]
HOP = ["connection", "keep-alive", "proxy-authenticate", "proxy-authorization", "te", "trailer", "transfer-encoding", "upgrade"]


def variants(base):
    out = [base, ""]
    for c in BAD:
        for i in range(len(base) + 1):
            out.append(base[:i] + c + base[i:])
    return out


def mk(status, headers, **kw):
    c = rc.base_case(chunks=(2,), cl="exact", kind="list", **{k: v for k, v in kw.items() if k in ("version", "method")})
    c["py_status"] = status
    c["py_headers"] = headers
    c["strs"] = {"status": rc.cp(status), "fields": [{"n": rc.cp(n), "v": rc.cp(v), "lname": n.lower() if isinstance(n, str) else ""} for n, v in headers]}
    c["offending"] = [status] + [x for h in headers for x in h]
    for k in ("sr_twice", "mutate_after", "swallow", "mutate_inner"):
        if k in kw:
            c[k] = kw[k]
    return c


def cases(thorough):
    out = []
    for st in variants("200 OK") + NONSTR:
        out.append(mk(st, [["X-App", "v1"]]))
    for n in variants("X-Foo") + NONSTR:
        out.append(mk("200 OK", [[n, "bar"]]))
        out.append(mk("200 OK", [["X-A", "1"], [n, "bar"], ["X-B", "2"]]))
    for v in variants("bar baz") + NONSTR:
        out.append(mk("200 OK", [["X-Foo", v]]))
        out.append(mk("200 OK", [["X-Foo", v], ["X-Foo", "second"]], version="1.0"))
    for h in HOP:
        for name in (h, h.title(), h.upper()):
            out.append(mk("200 OK", [[name, "hopval-93"]]))
    out.append(mk("200 OK", [["Set-Cookie", "a=1"], ["Set-Cookie", "b=2"], ["X-Empty", ""]]))
    # headers the server itself interprets: the value still must not carry CR / LF
    for name in ("Content-Length", "content-length", "Date", "Server", "Content-Type"):
        base = "2" if name.lower() == "content-length" else "x"
        for c in ("\r", "\n", "\r\n"):
            for v in (base + c, c + base, base + c + "X-Injected: 1"):
                k = mk("200 OK", [[name, v], ["X-After", "1"]])
                k["script"]["cl"] = "none"
                out.append(k)
    # ... nor be anything but a string, whatever the server could make of it (an int Content-Length, a bytes Date)
    for name in ("Content-Length", "content-length", "CONTENT-LENGTH", "Date", "Server", "Content-Type", "Via"):
        for v in NONSTR + [2, 2.0, True]:
            k = mk("200 OK", [[name, v], ["X-After", "1"]])
            k["script"]["cl"] = "none"
            out.append(k)
            k = mk("200 OK", [["X-First", "1"]], sr_twice={"status": "503 Later", "headers": [[name, v]]})
            k["strs"] = {"status": rc.cp("503 Later"), "fields": [{"n": rc.cp(name), "v": rc.cp(v), "lname": name.lower()}]}
            k["script"]["status"] = {"text": "503 Later", "code": 503}
            k["script"]["cl"] = "none"
            k["offending"] = [v]
            out.append(k)
    # repeated field names survive whatever the server does to its own fields (a file wrapper whose length differs from
    # the declared Content-Length makes the server rewrite that field)
    for kind in ("file", "file_noseek"):
        for cl in ("larger", "smaller", "exact"):
            k = mk("200 OK", [["Set-Cookie", "a=1"], ["Set-Cookie", "b=2"], ["Link", "<x>"], ["link", "<y>"], ["LINK", "<z>"], ["Warning", "199 - a"], ["Warning", "199 - b"]])
            k["script"]["kind"] = kind
            k["script"]["cl"] = cl
            out.append(k)
    # exc_info re-call before any output: the second call's strings are the ones that count
    for bad in ["v\r\nX-Injected: 1", "v\nX", "v\rX", "fine"]:
        c = mk("200 OK", [["X-First", "1"]], sr_twice={"status": "503 Later", "headers": [["X-Second", bad]]})
        c["strs"] = {"status": rc.cp("503 Later"), "fields": [{"n": rc.cp("X-Second"), "v": rc.cp(bad), "lname": "x-second"}]}
        c["script"]["status"] = {"text": "503 Later", "code": 503}
        c["offending"] = [bad]
        out.append(c)
    for bad in ["\r\nX-Injected: 1", "x\ny"]:
        c = mk("200 OK", [["X-First", "1"]], sr_twice={"status": "503 Later" + bad, "headers": [["X-Second", "2"]]})
        c["strs"] = {"status": rc.cp("503 Later" + bad), "fields": [{"n": rc.cp("X-Second"), "v": rc.cp("2"), "lname": "x-second"}]}
        c["offending"] = [bad]
        out.append(c)
    # an application that swallows the refusal and returns its body all the same: whatever head goes out, the refused
    # strings are not in it
    for bad in ("\r\nX-Injected: yes", "\nX-Injected: yes", "\rX"):
        for st in ("200 OK" + bad, "200" + bad + " OK", bad + "200 OK"):
            c = mk(st, [["X-App", "v1"]], swallow=True)
            c["offending"] = [st, bad]
            out.append(c)
        for hv in ("v" + bad, bad + "v"):
            c = mk("200 OK", [["X-App", hv]], swallow=True)
            c["offending"] = [hv, bad]
            out.append(c)
            c = mk("200 OK", [[("X-App" + bad), "v1"]], swallow=True)
            c["offending"] = [bad]
            out.append(c)
    # header list mutated after start_response returned: late entries are not the application's header fields
    for late in (["X-Late", "a\r\nSet-Cookie: pwned=1"], ["Upgrade", "websocket"], ["X-Late", "fine"]):
        c = mk("200 OK", [["X-First", "1"]], mutate_after=late)
        c["offending"] = [late[1]]
        out.append(c)
    # header items handed over as lists and changed in place after start_response returned: what was validated is
    # what is sent
    for j, late in ((1, "a\r\nSet-Cookie: pwned=1"), (0, "X-First\r\nX-Injected"), (1, "a\nb"), (0, "Upgrade")):
        c = mk("200 OK", [["X-First", "1"]], mutate_inner=[0, j, late])
        c["offending"] = [late]
        out.append(c)
    return out


def run(chk, replay=None):
    cs = cases(chk.thorough)
    evs, rej = rc.judge(chk, "C08", rc.C08, cs)
    for i, e in enumerate(evs):
        chk.count(1, ("c08", i) if any(c in (10, 13, 0, 11, -1) or c > 255 for f in [e["strs"]["status"]] + [x for fl in e["strs"]["fields"] for x in (fl["n"], fl["v"])] for c in f) else None)
    chk.exhaustive = True
    chk.sample({"case": {k: cs[40][k] for k in ("py_status", "py_headers")}, "head_lines": ["".join(chr(x) for x in l) for l in evs[40]["obs"]["head_lines"]]})
    chk.rule = ("status / header name / header value strings over the class alphabet {plain, CR, LF, CRLF, NUL, VT, colon, space, non-latin-1, empty, non-str} with the offending character at every position, "
                "hop-by-hop names in three spellings, exc_info re-call, header list mutated after the call: %d exchanges; non-trivial = a string containing a control / non-latin-1 / non-str item" % len(cs))
    chk.assumptions += ["non-latin-1 strings and application-supplied Content-Length values may be refused or emitted (the statement lists only CR/LF, non-str and hop-by-hop as refused)"]
