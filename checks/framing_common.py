"""Shared by C01 / C02 / C06 (and C07): execution of streams under
segmentations on the real server, TLC judging with spec/Trace_Framing.tla."""
import json
import random

from checks import framing_gen
from wv import h_framing, tv
from wv.par import pmap

C01 = ["P01_complete_message_neither_delivered_nor_refused", "P01_nothing_after_refusal_or_mandatory_close", "P01_delivered_message_is_what_rfc9112_extracts",
       "P01_method_and_target_as_sent", "P01_body_delimited_by_its_framing", "P01_only_faulty_messages_are_refused",
       "P01_connection_closed_after_refusal_or_faulty_framing"]
C02 = ["P02_outcome_independent_of_segmentation"]
C06 = ["P06_error_status_fits_the_fault", "P06_one_of_400_413_431_501", "P06_parsing_never_raises", "P06_parsing_never_hangs",
       "P06_stops_consuming_within_one_read_after_refusal", "P01_nothing_after_refusal_or_mandatory_close",
       "P01_delivered_message_is_what_rfc9112_extracts", "P01_connection_closed_after_refusal_or_faulty_framing",
       # "is refused": an oversize / malformed message that is complete by the reference must not be left unanswered
       "P01_complete_message_neither_delivered_nor_refused"]


def segmentations(n, mode, rng):
    """lists of cut offsets for a stream of n bytes"""
    segs = [()]
    if mode == "none" or n <= 1:
        return segs
    if mode == "pieces":                      # long streams: reads of 7 / 100 / 1000 bytes, none of them the whole stream
        return segs + [tuple(range(k, n, k)) for k in (7, 100, 1000) if k < n]
    segs.append(tuple(range(1, n)))          # one byte at a time
    if mode == "single":
        for c in range(1, n):
            segs.append((c,))
    elif mode == "sampled":
        for c in rng.sample(range(1, n), min(n - 1, 12)):
            segs.append((c,))
    elif mode == "pairs":
        for c in range(1, n):
            segs.append((c,))
        cuts = list(range(1, n))
        for _ in range(min(400, n * 4)):
            a, b = sorted(rng.sample(cuts, 2))
            segs.append((a, b))
    for _ in range(3):
        k = rng.randint(2, min(6, n - 1)) if n > 3 else 1
        segs.append(tuple(sorted(rng.sample(range(1, n), k))))
    return segs


def run_batch(args):
    """worker: list of (name, stream, limits, segmode, seed) -> list of per-stream records"""
    items, adj_extra = args
    from wv.core import repo_on_path
    repo_on_path()
    out = []
    servers = {}
    try:
        for name, stream, limits, segmode, seed in items:
            key = tuple(sorted(limits.items()))
            if key not in servers:
                adj = {"max_request_header_size": limits["maxh"], "max_request_body_size": limits["maxb"]}
                adj.update(adj_extra or {})
                servers[key] = h_framing.FramingServer(**adj)
            fs = servers[key]
            rng = random.Random(seed)
            variants = {}
            nseg = 0
            hangs = 0
            for cuts in segmentations(len(stream), segmode, rng):
                if hangs >= 2:
                    break   # this stream makes the parser hang: no need to wait for every segmentation
                o = fs.run(stream, cuts)
                hangs += bool(o["hang"])
                nseg += 1
                ev = {"obs": o["obs"], "closed": o["closed"], "raised": o["raised"], "hang": o["hang"], "after": o["after"]}
                k = json.dumps(ev, sort_keys=True)
                if k not in variants:
                    ev["cuts"] = list(cuts)[:40]
                    ev["errors"] = o["errors"][:2]
                    ev["nseg"] = 0
                    variants[k] = ev
                variants[k]["nseg"] += 1
            evs = list(variants.values())   # the one-piece delivery comes first
            out.append({"name": name, "stream": stream, "limits": limits, "variants": evs, "nseg": nseg})
    finally:
        for fs in servers.values():
            fs.close()
    return out


def execute(chk, pid, focus, items, label="", adj_extra=None, batch=40):
    batches = [(items[i:i + batch], adj_extra) for i in range(0, len(items), batch)]
    results = pmap(run_batch, batches)
    traces, meta = [], {}
    nseg = 0
    for res in results:
        for rec in res:
            t = len(traces)
            nseg += rec["nseg"]
            traces.append({"id": t, "cfg": {"s": list(rec["stream"]), "maxh": rec["limits"]["maxh"], "maxb": rec["limits"]["maxb"]},
                           "ev": [{k: v for k, v in ev.items() if k not in ("cuts", "errors")} for ev in rec["variants"]]})
            meta[str(t)] = rec
    chk.extra["segmentations_executed"] = chk.extra.get("segmentations_executed", 0) + nseg
    consts = "CONSTANTS Focus = {%s}\n" % ", ".join('"%s"' % c for c in focus)
    rej, drift = tv.validate(chk, "Trace_Framing", traces, consts, name="TV:Framing %s %s" % (pid, label), workers=12, java_opts=("-Xss256m",))
    for i, (pos, clauses) in rej.items():
        rec = meta[i]
        ev = rec["variants"][pos - 1] if pos <= len(rec["variants"]) else {}
        brief = [(e["k"], bytes(e["method"]).decode("latin-1"), bytes(e["target"]).decode("latin-1"), bytes(e["body"])[:20].decode("latin-1")) if e["k"] == "app" else ("resp", e["code"]) for e in ev.get("obs", [])]
        chk.violation({"kind": "stream", "clauses": sorted(clauses), "family": family(rec["name"])},
                      "stream %s %r limits=%s cuts=%s -> %s closed=%s raised=%s%s ; violates %s" % (
                          rec["name"], rec["stream"][:160], rec["limits"], ev.get("cuts"), brief, ev.get("closed"), ev.get("raised"),
                          (" errors=%s" % ev.get("errors")) if ev.get("errors") else "", sorted(clauses)),
                      replay={"stream": list(rec["stream"]), "limits": rec["limits"], "cuts": ev.get("cuts")})
    return traces, meta, rej


def family(name):
    base = name.split("~")[0].split("+")[0].split("@")[0].split("*")[0]
    return base
