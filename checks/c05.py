"""C05 - no lost wake-up: responses are delivered without relying on the poll timeout.

The real server runs under the deterministic scheduler with the select/poll
timeout taken as INFINITE (the shim blocks until a descriptor is ready), so a
missing wake-up shows as a quiescent state with work left.  TLC judges every
recorded trace with the monitor clauses P05_* of spec/Pipeline.tla."""
from checks import chan_common as cc
from checks import chan_random
from wv import h_channel
from checks import chan_model

LEVEL = "model_checking"


def scenarios(thorough):
    P = lambda k: {"k": k, "kind": "plain"}
    out = []
    slow = [["readall_after_block", 1]]
    for use_poll in (False, True):
        tag = "poll" if use_poll else "select"
        out.append(cc.mk([P(1)], use_poll=use_poll, name="1plain %s" % tag))
        out.append(cc.mk([P(1), P(2)], lookahead=1, workers=2, use_poll=use_poll, split="each", name="2plain la=1 %s" % tag))
        out.append(cc.mk([P(1), {"k": 2, "kind": "close"}], use_poll=use_poll, room=0, extra_client=slow, name="plain,close slow %s" % tag))
        out.append(cc.mk([P(1)], use_poll=use_poll, room=0, extra_client=slow, apps={1: {"chunks": [50, 50, 50], "cl": "none"}},
                         adj={"send_bytes": 100}, name="chunked resp around send_bytes slow %s" % tag))
        out.append(cc.mk([P(1)], use_poll=use_poll, room=40, extra_client=[["read", 30], ["read", 30], ["readall"]],
                         apps={1: {"chunks": [30, 30, 30], "write": True}},
                         adj={"outbuf_high_watermark": 50, "send_bytes": 1}, name="producer over watermark %s" % tag))
        # the head (about 150 bytes) goes out completely, the first block only in part; then the application pauses
        out.append(cc.mk([P(1)], use_poll=use_poll, room=200, extra_client=slow, apps={1: {"chunks": [100, "sync", 10]}},
                         adj={"send_bytes": 1}, name="application pauses in mid-stream after a partial send %s" % tag))
        out.append(cc.mk([{"k": 1, "kind": "http10"}], use_poll=use_poll, room=0, extra_client=slow, name="http10 close-delimited slow %s" % tag,
                         apps={1: {"chunks": [10, 10], "cl": "none"}}))
    out.append(cc.mk([P(1), {"k": 2, "kind": "expect"}], lookahead=1, split="joinheads", waits=(2,), room=0, read_before_await=True, name="expect waits, slow"))
    # a send error while the producer is paused above the watermark: the I/O loop closes the channel and the producer is released
    import errno
    for nth in (2, 3):
        for e in (errno.EINVAL, errno.ENOBUFS):
            out.append(cc.mk([P(1)], room=10, extra_client=[["read_after_block", 2, 20], ["readall_after_block", 3]], drains=False,
                             faults={"send": [None] * nth + [e]}, apps={1: {"chunks": [40, 40, 40], "cl": "none"}},
                             adj={"outbuf_high_watermark": 30}, name="producer over watermark, send#%d fails %s" % (nth + 1, errno.errorcode[e])))
    # a spurious readiness report (recv finds nothing: EAGAIN) on a fresh connection / before the second request of a
    # keep-alive connection: whatever the server makes of it, the connection is not left open and unserved
    for use_poll in (False, True):
        out.append(cc.mk([P(1)], use_poll=use_poll, faults={"recv": [errno.EAGAIN]}, name="recv#1 reports EAGAIN %s" % ("poll" if use_poll else "select")))
        out.append(cc.mk([P(1), P(2)], use_poll=use_poll, split="each", faults={"recv": [None, errno.EAGAIN]}, name="recv#2 reports EAGAIN %s" % ("poll" if use_poll else "select")))
    # degenerate marks: a drain that ends exactly on the mark must release the producer
    out.append(cc.mk([P(1)], room=40, extra_client=[["read", 30], ["read", 45], ["readall"]], apps={1: {"chunks": [30, 30, 30], "cl": "none"}},
                     adj={"outbuf_high_watermark": 0, "send_bytes": 1}, name="producer over watermark 0"))
    out.append(cc.mk([P(1)], room=0, extra_client=[["readall_after_block", 1]], apps={1: {"chunks": [200, 200], "write": True, "cl": "none"}},
                     adj={"outbuf_high_watermark": 100, "send_bytes": 300}, name="send_bytes above the watermark"))
    # two connections whose requests need each other (each waits until the other is being executed): both must get a worker
    other = {"requests": [{"k": 2, "kind": "plain"}], "client": [["connect"], ["send", b"".join(h_channel.request_bytes({"k": 2, "kind": "plain"}))]], "room": None}
    out.append(cc.mk([P(1)], workers=2, second=other, apps={1: {"chunks": ["peer", 3]}, 2: {"chunks": ["peer", 3]}}, name="two connections, requests that wait for each other, 2 workers"))
    out.append(cc.mk([P(1), P(2), P(3)], lookahead=0, workers=1, split="each", name="3plain each la=0"))
    out.append(cc.mk([P(1), P(2), {"k": 3, "kind": "close"}], lookahead=0, workers=2, split="each", name="2plain then close, each la=0 (keep-alive connection, several wake-ups)"))
    out.append(cc.mk([P(1), P(2)], lookahead=2, workers=2, room=0, extra_client=slow, apps={1: {"cl": "larger"}}, name="undelimitable then plain la=2 slow"))
    out.append(cc.mk([P(1)], room=0, extra_client=[["readall"]], sndbuf=32, apps={1: {"chunks": [100]}}, adj={"send_bytes": 18000}, name="large send_bytes, small sndbuf, slow"))
    out.append(cc.mk([{"k": 1, "kind": "body"}], split="half", extra_client=[["close"]], name="body in halves then client close"))
    return out


def run(chk, replay=None):
    scns = scenarios(chk.thorough)
    chan_model.model_check(chk, "C05", scns)
    n_pct, dfs = (700, 2400) if chk.thorough else (150, 700)
    cc.explore_and_validate(chk, "C05", scns, n_pct, dfs, bound=2, label="wakeup")
    chan_random.explore(chk, "C05")
    chk.rule = ("cases = schedules of the real server with the poll timeout infinite, over %d scenarios (response sizes around send_bytes / watermark / SO_SNDBUF, "
                "slow readers, select and poll); evaluations = distinct traces judged by TLC; non-trivial = >= 2 requests or a close" % len(scns))
    chk.assumptions += ["the client keeps reading (drains) in every scenario; quiescence = no logical thread enabled", "simulated kernel"]
