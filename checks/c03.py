"""C03 - every response stream is well-framed and persistence is signalled truthfully.

The full product of the decision table (HTTP version x request Connection x
method x status class x declared-length relation x chunk lists x write() x
list/generator/file wrapper) is executed on the real server, each exchange
followed by a pipelined request; the wire is lexed by an independent
client-side reader and TLC judges every exchange with spec/Response.tla."""
import itertools

from checks import resp_common as rc

LEVEL = "model_checking"


def cases(thorough):
    out = []
    chunk_lists = [[], [0], [3], [2, 1], [0, 2], [2, 0, 1]] + ([[1, 1, 1], [0, 0], [5, 0]] if thorough else [])
    for (version, conn) in (("1.1", ""), ("1.1", "close"), ("1.1", "keep-alive"), ("1.0", ""), ("1.0", "keep-alive"), ("1.0", "close")):
        for method in ("GET", "HEAD"):
            for status in rc.STATUSES:
                for cl in ("none", "exact", "larger", "smaller"):
                    for chunks in chunk_lists:
                        for kind, use_write in (("list", False), ("gen", False), ("list", True), ("gen", True), ("file", False), ("file_noseek", False)):
                            total = sum(chunks)
                            if method == "HEAD" and (total > 0):
                                continue   # body bytes for HEAD break the WSGI contract: outside the quantifier
                            if status[1] in (204, 304) and total > 0 and not thorough:
                                continue
                            if kind.startswith("file") and (cl == "smaller" and total == 0):
                                continue
                            out.append(rc.base_case(status=status, cl=cl, chunks=chunks, kind=kind, use_write=use_write,
                                                    version=version, conn=conn, method=method))
                            # part of the body through write(), the rest through the returned iterable
                            if use_write and len(chunks) >= 2 and total > 0:
                                for nw in range(1, len(chunks)):
                                    out.append(rc.base_case(status=status, cl=cl, chunks=chunks, kind=kind, use_write=True, write_first=nw,
                                                            version=version, conn=conn, method=method))
    # failure after the head was sent: the response can no longer be delimited as announced, the connection is closed
    # instead of reused (exception classes and log_socket_errors matter: OSError is treated as a socket error)
    for (version, conn) in (("1.1", ""), ("1.0", "keep-alive")):
        for cl in ("none", "exact", "larger"):
            for chunks in ([3, 2], [2, 0, 1]):
                for kind, use_write in (("gen", False), ("list", True)):
                    for exc in ("Exception", "OSError"):
                        for lse in (True, False):
                            for k in range(1, len(chunks) + 1):
                                out.append(rc.base_case(cl=cl, chunks=chunks, kind=kind, use_write=use_write, fail="write" if use_write else "iter", fail_k=k,
                                                        exc=exc, lse=lse, version=version, conn=conn))
    # the server's own error page (application failure before any output): what it says about persistence is
    # unambiguous and true, for every request version / Connection header
    for (version, conn) in (("1.1", ""), ("1.1", "close"), ("1.1", "keep-alive"), ("1.0", ""), ("1.0", "keep-alive"), ("1.0", "close")):
        for fail, k in (("call", 0), ("start_response", 0), ("iter", 0)):
            for cl in ("none", "exact"):
                out.append(rc.base_case(cl=cl, chunks=[3], kind="gen", fail=fail, fail_k=k, version=version, conn=conn))
    # a file handed over at an offset (a range request): what is announced and sent is what is left of it
    for (version, conn) in (("1.1", ""), ("1.0", "keep-alive")):
        for cl in ("none", "exact", "larger"):
            for chunks in ([5], [3, 2], []):
                c = rc.base_case(cl=cl, chunks=chunks, kind="file", version=version, conn=conn)
                c["file_offset"] = 7
                out.append(c)
    # a slow reader (16 bytes at a time): a response spread over several out buffers (file wrapper) arrives whole,
    # also when it is the last one on the connection
    for (version, conn) in (("1.1", "close"), ("1.0", ""), ("1.1", ""), ("1.0", "keep-alive")):
        for kind in ("file", "list", "file_noseek"):
            for cl in ("exact", "none"):
                c = rc.base_case(cl=cl, chunks=[30, 30], kind=kind, version=version, conn=conn)
                c["room"], c["take"] = 16, 16
                out.append(c)
    # the application changes its mind before any output (exc_info re-call): the response is framed by the second
    # call's headers only - a Content-Length declared by the abandoned first call does not count
    for (version, conn) in (("1.1", ""), ("1.0", "keep-alive")):
        for cl in ("none", "exact"):
            for chunks, first in (([3], 1), ([3], 7), ([2, 2], 0), ([], 5)):
                for kind in ("list", "gen"):
                    c = rc.base_case(status=("503 Later", 503), cl=cl, chunks=chunks, kind=kind, version=version, conn=conn)
                    c["sr_twice"] = {"status": "503 Later", "headers": [["X-App", "v1"]], "first_cl": first}
                    c["py_status"] = "200 OK"
                    c["py_headers"] = [["X-First", "1"]]
                    out.append(c)
    return out


def run(chk, replay=None):
    cs = cases(chk.thorough)
    if replay and replay.get("replay"):
        cs = [replay["replay"]["case"]]
    evs, rej = rc.judge(chk, "C03", rc.C03, cs)
    # persistence under concurrency: an undelimitable / closing response followed by a read-ahead request
    from checks import chan_common as cc
    P = lambda k: {"k": k, "kind": "plain"}
    slow = [["readall_after_block", 1]]
    scns = []
    for la in (1, 2):
        scns.append(cc.mk([P(1), P(2)], lookahead=la, workers=2, split="each", apps={1: {"cl": "larger"}}, name="undelimitable then complete, later read la=%d" % la))
        scns.append(cc.mk([P(1), P(2)], lookahead=la, workers=2, split="one", apps={1: {"cl": "larger"}}, name="undelimitable then complete, same read la=%d" % la))
        scns.append(cc.mk([{"k": 1, "kind": "http10"}, P(2)], lookahead=la, workers=2, split="each", name="http10 then complete la=%d" % la))
        scns.append(cc.mk([P(1), P(2)], lookahead=la, workers=2, split="each", room=0, extra_client=slow, apps={1: {"chunks": [3, 3], "cl": "none", "raise_at": 1}}, name="failure after head then complete, slow la=%d" % la))
    # a large response to a slow reader (the out buffer spills to a file while partly sent) followed by a pipelined
    # request: the client recovers every body byte and the second response
    for ov, sizes in ((250, [40] * 8), (300, [60, 10, 60, 60, 60, 60])):
        for cl in ("exact", "none"):
            scns.append(cc.mk([P(1), P(2)], lookahead=1, workers=1, room=30, extra_client=[["readall_after_block", 4]],
                              apps={1: {"chunks": sizes, "cl": cl}}, adj={"outbuf_high_watermark": 1000, "outbuf_overflow": ov},
                              name="slow reader, outbuf_overflow=%d, %s, then plain" % (ov, "Content-Length" if cl == "exact" else "chunked")))
    n_pct, dfs = (600, 2500) if chk.thorough else (60, 300)
    cc.explore_and_validate(chk, "C03", scns, n_pct, dfs, bound=2, label="persistence")
    for i, e in enumerate(evs):
        sc = e["script"]
        chk.count(1, ("c03", i) if (sc["cl"] != "exact" or sc["kind"] != "list" or e["req"]["version"] == "1.0") else None)
    chk.exhaustive = True
    chk.sample({"case": cs[len(cs) // 2], "observation": {k: v for k, v in evs[len(cs) // 2]["obs"].items() if k in ("responses", "closed")}})
    chk.rule = ("the whole product HTTP version x Connection x method x status class x declared-length relation x chunk list x (list|generator|write()|file wrapper seekable/not) "
                "(%d exchanges), each followed by a pipelined request; non-trivial = anything but the plain exact-length list response on HTTP/1.1" % len(cs))
    chk.assumptions += ["applications that emit body bytes for HEAD or several Content-Length headers are outside the quantifier", "the wire is lexed by wv/httpclient.py (RFC 9112 section 6 reader, no waitress code)"]
