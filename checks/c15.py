"""C15 - untrusted peers cannot influence connection metadata (spec/Proxy.tla, clauses P15_*)."""
from checks import proxy_common as pc

LEVEL = "model_checking"


def run(chk, replay=None):
    pc.execute(chk, "C15", pc.C15, want_trusted=False)
    chk.rule = ("cases = (server configuration, peer != trusted proxy, header assignment) with header values built from the element vocabulary of Proxy.tla (well-formed, malformed, hostile), "
                "hop lists exhaustive up to length 1-2 per kind + seeded longer ones; each case runs twice on the real server (with and without the proxy headers), requests of the real proxy interleaved on the same server; "
                "TLC evaluates non-interference and clearing; non-trivial = at least two header elements")
    chk.assumptions += ["peers are addresses different from, prefixes/substrings/superstrings of, the trusted proxy address; '*' is excluded as the property says"]
