"""C13 - client faults are contained; teardown happens once, on the I/O thread only.

Fault placements (errno classes x socket calls, incl. the socket-option calls
on a just-accepted connection) x schedules on the real server under the
deterministic scheduler, with a second, healthy connection that must complete;
TLC judges the traces with the monitor clauses P13_* of spec/Pipeline.tla."""
import copy
import errno

from checks import chan_common as cc
from checks import chan_random
from checks import chan_model

LEVEL = "model_checking"

DISC = [errno.ECONNRESET, errno.EPIPE, errno.ENOTCONN, errno.EBADF]
OTHER = [errno.EINVAL, errno.EIO]


def scenarios(thorough):
    P = lambda k: {"k": k, "kind": "plain"}
    out = []
    other = lambda: cc.plain_conn(1, 1)
    errs = DISC + OTHER if thorough else [errno.ECONNRESET, errno.EPIPE, errno.EBADF, errno.EINVAL]
    for e in errs:
        en = errno.errorcode[e]
        for nth in (0, 1):
            out.append(cc.mk([P(1), P(2)], lookahead=1, workers=2, faults={"send": [None] * nth + [e]}, second=other(), split="each",
                             apps={1: {"chunks": [20, 20], "cl": "none"}}, drains=True, name="send#%d fails %s" % (nth + 1, en)))
        out.append(cc.mk([P(1), P(2)], lookahead=1, workers=2, faults={"recv": [None, e]}, second=other(), split="each", name="recv#2 fails %s" % en))
        out.append(cc.mk([P(1)], workers=1, faults={"recv": [e]}, second=other(), name="recv#1 fails %s" % en))
    out.append(cc.mk([P(1)], workers=1, faults={"recv": ["eof"]}, second=other(), name="EOF at once"))
    # vanishing in mid-request / mid-response
    out.append(cc.mk([{"k": 1, "kind": "body"}], split="half", extra_client=[["close"]], second=other(), drains=False, name="vanish mid-request"))
    out.append(cc.mk([P(1)], room=10, extra_client=[["reset"]], second=other(), drains=False, apps={1: {"chunks": [50, 50], "cl": "none"}}, name="reset mid-response"))
    out.append(cc.mk([P(1), {"k": 2, "kind": "expect"}], split="joinheads", waits=(2,), room=0, extra_client=[], read_before_await=True,
                     faults={"send": [None, errno.EPIPE]}, second=other(), name="EPIPE while sending the deferred 100-continue"))
    # a disconnect errno on the n-th send while the producer is above the watermark (worker-side flush paths)
    for e in (errno.EPIPE, errno.ECONNRESET):
        for nth in range(0, 5):
            out.append(cc.mk([P(1)], room=10, extra_client=[["read", 20], ["read", 20], ["readall"]], second=other(), drains=False,
                             faults={"send": [None] * nth + [e]}, apps={1: {"chunks": [40, 40, 40], "cl": "none"}},
                             adj={"outbuf_high_watermark": 30}, name="producer over watermark, send#%d fails %s" % (nth + 1, errno.errorcode[e])))
    # ... and teardown paths that do not pass through the lockable flush: a non-disconnect errno on send, EOF/reset seen by recv (lookahead > 0)
    for e in (errno.EINVAL, errno.ETIMEDOUT):
        for nth in (2, 3):
            out.append(cc.mk([P(1)], room=10, extra_client=[["read", 20], ["read", 20], ["readall"]], second=other(), drains=False,
                             faults={"send": [None] * nth + [e]}, apps={1: {"chunks": [40, 40, 40], "cl": "none"}},
                             adj={"outbuf_high_watermark": 30}, name="producer over watermark, send#%d fails %s" % (nth + 1, errno.errorcode[e])))
    # the same with socket errors not logged
    for e in (errno.EINVAL, errno.ETIMEDOUT):
        out.append(cc.mk([P(1)], room=10, extra_client=[["read", 20], ["read", 20], ["readall"]], second=other(), drains=False,
                         faults={"send": [None] * 2 + [e]}, apps={1: {"chunks": [40, 40, 40]}},
                         adj={"outbuf_high_watermark": 30, "log_socket_errors": False}, name="producer over watermark, sends fail %s from #3 on, log_socket_errors off" % errno.errorcode[e]))
    for how in ("close", "reset"):
        out.append(cc.mk([P(1)], lookahead=1, room=10, extra_client=[["read", 5], [how]], second=other(), drains=False,
                         apps={1: {"chunks": [40, 40, 40], "cl": "none"}}, adj={"outbuf_high_watermark": 30},
                         name="producer over watermark, lookahead=1, client %s" % how))
    # urgent data and the end of the stream in the same round (select: exceptional set; poll: POLLPRI)
    for use_poll in (False, True):
        out.append(cc.mk([P(1)], workers=1, extra_client=[["oob"], ["close"]], second=other(), use_poll=use_poll, drains=False,
                         name="urgent byte then close after the response (%s)" % ("poll" if use_poll else "select")))
        out.append(cc.mk([{"k": 1, "kind": "partial"}], workers=1, extra_client=[["oob"], ["close"]], second=other(), use_poll=use_poll, drains=False,
                         name="urgent byte then close in mid-request (%s)" % ("poll" if use_poll else "select")))
    # the I/O thread's own flush fails while the producer is parked (the reader takes bytes only after the producer was blocked)
    for e in (errno.EINVAL, errno.ETIMEDOUT):
        out.append(cc.mk([P(1)], room=10, extra_client=[["read_after_block", 2, 20]], second=other(), drains=False,
                         faults={"send": [None] * 3 + [e]}, apps={1: {"chunks": [40, 40, 40], "cl": "none"}},
                         adj={"outbuf_high_watermark": 30}, name="producer parked, the I/O thread's send#4 fails %s" % errno.errorcode[e]))
    # a spurious readiness report: recv finds nothing to read (EAGAIN) although the descriptor was reported readable
    out.append(cc.mk([P(1)], workers=1, faults={"recv": [errno.EAGAIN]}, second=other(), name="recv#1 reports EAGAIN"))
    out.append(cc.mk([P(1), P(2)], lookahead=1, workers=2, faults={"recv": [None, errno.EAGAIN]}, second=other(), split="each", name="recv#2 reports EAGAIN"))
    # a file handed to wsgi.file_wrapper: whatever happens to the connection between the head and the hand-over of the
    # file, the descriptor is released
    for la in (0, 1):
        for how in ("close", "reset"):
            out.append(cc.mk([P(1)], lookahead=la, room=0, extra_client=[[how]], second=other(), drains=False,
                             apps={1: {"chunks": [120], "filewrapper": True, "cl": "exact"}}, name="file_wrapper response, client %s, la=%d" % (how, la)))
    for e in (errno.EPIPE, errno.EINVAL):
        for nth in (0, 1):
            out.append(cc.mk([P(1), P(2)], lookahead=1, second=other(), drains=False, faults={"send": [None] * nth + [e] * 4},
                             apps={1: {"chunks": [120], "filewrapper": True, "cl": "none"}, 2: {"chunks": [40], "filewrapper": True}},
                             adj={"send_bytes": 1}, name="file_wrapper responses, send#%d.. fail %s" % (nth + 1, errno.errorcode[e])))
    # faults while the connection is being set up
    for op in ("getsockopt", "setsockopt", "setblocking"):
        for e in (errno.EINVAL, errno.ECONNRESET, errno.EBADF):
            out.append(cc.mk([P(1)], workers=1, faults={op: [e]}, second=other(), name="%s on accepted socket fails %s" % (op, errno.errorcode[e])))
    for e in (errno.ECONNABORTED, errno.EMFILE, errno.EINVAL, errno.ECONNRESET):
        out.append(cc.mk([P(1)], workers=1, accept_faults=[e], second=other(), name="accept fails %s" % errno.errorcode[e]))
    for s in out:
        s["conns"][0]["faulty"] = True
    return out


def run(chk, replay=None):
    scns = scenarios(chk.thorough)
    # the model has one connection: the scenarios inside its slice (send faults, a client that goes away) are
    # also run without the healthy second connection and those executions are validated against Channel.tla
    alone = []
    for s in scns:
        s1 = copy.deepcopy(s)
        s1["conns"] = s1["conns"][:1]
        s1["name"] = s1.get("name", "") + " (alone)"
        alone.append(s1)
    chan_model.model_check(chk, "C13", alone)
    n_pct, dfs = (600, 2500) if chk.thorough else (50, 250)
    cc.explore_and_validate(chk, "C13", scns, n_pct, dfs, bound=2, label="faults")
    chan_random.explore(chk, "C13")
    chk.rule = ("cases = (fault placement x schedule): one injected errno on a send/recv/accept/getsockopt/setsockopt/setblocking call of connection 1, "
                "%d placements, each explored with bounded DFS + sampled pre-emptions, a healthy second connection alongside; evaluations = distinct traces judged by TLC" % len(scns))
    chk.assumptions += ["descriptors are simulated: 'released' = close() called exactly once on the fake socket and buffer files closed", "one fault per scenario in the quick tier"]
