"""C01 - request framing is unambiguous and agrees with RFC 9112 (spec/Framing.tla)."""
import random

from checks import framing_common as fc
from checks import framing_gen

LEVEL = "model_checking"
DEFAULT = {"maxh": 262144, "maxb": 1073741824}


def run(chk, replay=None):
    # the incremental chunked decoder, transcribed (spec/ReceiverOps.tla): every segmentation of a corpus of chunked
    # bodies on the model (outcome independent of the cuts, and the grammar's), model bound to the real decoder
    from checks import recv_model
    recv_model.model_check(chk, "C01")
    rng = random.Random(chk.seed)
    corpus = framing_gen.corpus(chk.thorough, rng)
    items = [(n, s, DEFAULT, "sampled", chk.seed * 7919 + i) for i, (n, s) in enumerate(corpus)]
    traces, meta, rej = fc.execute(chk, "C01", fc.C01, items)
    for t in traces:
        nm = meta[str(t["id"])]["name"]
        chk.count(1, ("s", t["id"]) if ("~" in nm or "+" in nm or not nm.startswith("get")) else None)
    rec = meta[str(len(traces) // 2)]
    chk.sample({"name": rec["name"], "stream": rec["stream"].decode("latin-1"), "observation": [(e["k"], e["code"]) for e in rec["variants"][0]["obs"]]})
    chk.rule = ("streams = sentences of the HTTP/1.x request grammar (three body framings, trailers, chunk extensions, obs-fold, absolute/origin/asterisk targets), "
                "their pipelines (+ trailing partial message / garbage), a table of ambiguous or malformed framing headers, chunk syntax, header-section and request-line near-misses, and single-byte "
                "replacements / deletions / duplications at every position of the framing-critical sentences; each stream is delivered in one piece, byte-at-a-time and under sampled cuts and the outcome is judged by TLC against Framing.tla; "
                "non-trivial = anything but a single plain GET")
    chk.assumptions += ["where the statement leaves a choice (CL+TE, TE on a non-1.1 request, obs-fold, obs-text target, lower-case method, control characters other than CR/LF/NUL in a value) the specification admits both outcomes",
                        "header fields are compared in C07; here method, target, body and the position where the next message starts"]
