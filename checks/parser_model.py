"""spec/ParserOps.tla / Parser.tla: HTTPRequestParser.received() transcribed
(head buffering and limit accounting, leading empty lines, hand-over to the
fixed-length / chunked receiver, body limit accounting).

(1) TLC feeds every request of a corpus (each followed by the start of a next
    message, under default and tight limits) to the transcription under EVERY
    segmentation into reads: refused / complete / incomplete, the status, the
    body and the number of bytes consumed do not depend on the cuts (C02) and
    the header limit is enforced whatever the cuts (C06).
(2) The transcription is bound to the code: the real parser is fed the same
    requests under several segmentations; after every read its attributes and
    the returned count must be the model's (Trace_Parser.tla)."""
import os
import random
import shutil

from checks import framing_gen as fg
from checks.recv_model import tla_seq
from wv import tlc, tv
from wv.core import MachineryFailure
from wv.par import pmap

FOLLOW = b"GET /n HTTP/1.1\r\nHost: h\r\n\r\n"
DEFAULT = {"maxh": 262144, "maxb": 1073741824}


def head_info(stream):
    """what parse_header makes of the head of `stream` (the real code, default limits)"""
    from waitress.adjustments import Adjustments
    from waitress.parser import HTTPRequestParser
    i = stream.find(b"\r\n\r\n")
    if i < 0:
        return {"err": 0, "cl": 0, "chunked": False}
    p = HTTPRequestParser(Adjustments())
    try:
        p.received(stream[: i + 4])
    except Exception as e:       # the parser must not raise (C06): reported by model_check
        return {"err": 0, "cl": 0, "chunked": False, "raised": repr(e)[:200]}
    err = getattr(p.error, "code", 0) if p.error is not None else 0
    return {"err": int(err), "cl": int(p.content_length or 0) if not p.chunked else 0, "chunked": bool(p.chunked)}


def corpus(thorough, rng):
    from wv.core import repo_on_path
    repo_on_path()
    S = fg.sentences()
    V = [v for v in fg.framing_variants() if not v[0].startswith("cl-zeros4400")]
    items = []
    for name, m in S + (V if thorough else V[::3]):
        w = m + FOLLOW[:9]
        i = m.find(b"\r\n\r\n")
        head = i + 4 if i >= 0 else len(m)
        body = len(m) - head
        ph = head_info(m)
        lims = [DEFAULT, {"maxh": head, "maxb": DEFAULT["maxb"]}, {"maxh": head + 1, "maxb": DEFAULT["maxb"]}, {"maxh": max(head - 3, 1), "maxb": DEFAULT["maxb"]}, {"maxh": 8, "maxb": 4}]
        if body > 0:
            lims += [{"maxh": DEFAULT["maxh"], "maxb": body}, {"maxh": DEFAULT["maxh"], "maxb": body + 1}, {"maxh": DEFAULT["maxh"], "maxb": max(body - 1, 1)}]
        for lim in lims:
            items.append({"name": name, "w": w, "ph": ph, "cfg": lim})
    # unterminated heads and leading empty lines
    for w in (b"GET /a HTTP/1.1\r\nX-H: " + b"v" * 40, b"\r\n\r\n" + fg.msg(headers=[fg.HOST]), b"\r\n" * 3 + fg.msg(headers=[fg.HOST]) + FOLLOW[:5], b"\r" + fg.msg(headers=[fg.HOST])):
        for lim in (DEFAULT, {"maxh": 20, "maxb": 8}, {"maxh": 45, "maxb": 8}):
            items.append({"name": "extra", "w": w, "ph": head_info(w.lstrip(b"\r\n") if w.startswith(b"\r\n") else w), "cfg": lim})
    return items


def to_tla_rec(it):
    return "[w |-> %s, ph |-> [err |-> %d, cl |-> %d, chunked |-> %s], cfg |-> [maxh |-> %d, maxb |-> %d]]" % (
        tla_seq(it["w"]), it["ph"]["err"], it["ph"]["cl"], "TRUE" if it["ph"]["chunked"] else "FALSE", it["cfg"]["maxh"], it["cfg"]["maxb"])


def run_real(items):
    from wv.core import repo_on_path
    repo_on_path()
    from waitress.adjustments import Adjustments
    from waitress.parser import HTTPRequestParser
    out = []
    adjs = {}
    for tid, it, cuts in items:
        key = (it["cfg"]["maxh"], it["cfg"]["maxb"])
        if key not in adjs:
            adjs[key] = Adjustments(max_request_header_size=key[0], max_request_body_size=key[1])
        p = HTTPRequestParser(adjs[key])
        w = it["w"]
        ev, pos, raised = [], 0, ""
        stop = False
        for b in list(cuts) + [len(w)]:
            if b <= pos or stop:
                continue
            piece = w[pos:b]
            pos = b
            while piece and not stop:
                try:
                    n = p.received(piece)
                except Exception as e:
                    raised = repr(e)[:200]
                    stop = True
                    break
                body = b""
                if p.completed and p.error is None and not p.empty:
                    try:
                        body = p.get_body_stream().read()
                    except Exception:
                        body = b""
                ev.append({"piece": list(piece), "consumed": n, "completed": bool(p.completed), "error": int(getattr(p.error, "code", 0)) if p.error is not None else 0,
                           "hbr": p.header_bytes_received, "bbr": p.body_bytes_received, "hfin": bool(p.headers_finished), "empty": bool(p.empty),
                           "hp": list(p.header_plus) if isinstance(p.header_plus, (bytes, bytearray)) else [], "body": list(body)})
                if p.completed or n == 0:
                    stop = True
                piece = piece[n:]        # what the call did not consume is offered again (HTTPChannel.received)
        out.append({"id": tid, "cfg": {"lim": it["cfg"], "ph": it["ph"]}, "ev": ev, "raised": raised, "w": w, "cuts": list(cuts), "name": it["name"]})
        p.close()
    return out


def model_check(chk, pid):
    rng = random.Random(chk.seed + 29)
    items = corpus(chk.thorough, rng)
    uniq, seen = [], set()
    for it in items:
        k = (it["w"], tuple(sorted(it["cfg"].items())))
        if k not in seen:
            seen.add(k)
            uniq.append(it)
    items = uniq
    for it in items:
        if it["ph"].get("raised"):
            chk.violation({"kind": "parser_raised"}, "HTTPRequestParser.received raised %s on the head of %r (%s)" % (it["ph"]["raised"], it["w"][:120], it["name"]),
                          replay={"stream": list(it["w"])})
    items = [it for it in items if not it["ph"].get("raised")]
    wd = tlc.scratch("pars")
    try:
        with open(os.path.join(wd, "MC_Pars.tla"), "w") as f:
            f.write("---- MODULE MC_Pars ----\nEXTENDS Parser\nMInputs == {\n%s}\n====\n" % ",\n".join(to_tla_rec(it) for it in items))
        cfg = ("SPECIFICATION Spec\nCONSTANTS Inputs <- MInputs\nCHECK_DEADLOCK FALSE\n"
               "INVARIANT SegmentationIndependent\nINVARIANT HeaderLimit\nINVARIANT ConsumedBounded\n")
        r = tlc.run("MC_Pars", cfg, workdir=wd, workers=8, timeout=3000, java_opts=("-Xss64m",))
        cfg2 = "SPECIFICATION Spec\nCONSTANTS Inputs <- MInputs\nCHECK_DEADLOCK FALSE\nINVARIANT StatusIndependentOfCuts\n"
        r2 = tlc.run("MC_Pars", cfg2, workdir=wd, workers=8, timeout=3000, java_opts=("-Xss64m",)) if pid == "C02" else None
    finally:
        shutil.rmtree(wd, ignore_errors=True)
    if r2 is not None:
        chk.add_tlc("MC:Parser status of a refusal independent of the cuts", r2, "strict form: also the status code")
    if r2 is not None and r2.violated:
        chk.violation({"kind": "model", "spec": "Parser", "invariant": r2.violated},
                      "Parser.tla: the status of a refusal depends on the cuts; last state:\n%s" % "\n".join(r2.trace[-1:])[:600])
    chk.add_tlc("MC:Parser all segmentations of %d (request, limits) pairs" % len(items), r, "every way of cutting each request into reads, on the transcription of HTTPRequestParser.received")
    if r.violated:
        chk.violation({"kind": "model", "spec": "Parser", "invariant": r.violated},
                      "Parser.tla (the transcription of HTTPRequestParser.received) violates %s; last state:\n%s" % (r.violated, "\n".join(r.trace[-1:])[:1500]))
    elif r.distinct is None or r.distinct < len(items):
        raise MachineryFailure("Parser MC did not run: %s" % r.out[-1500:])
    jobs = []
    for it in items:
        n = len(it["w"])
        segs = [(), tuple(range(1, n))]
        for _ in range(2 if not chk.thorough else 6):
            k = rng.randint(1, min(5, n - 1))
            segs.append(tuple(sorted(rng.sample(range(1, n), k))))
        segs += [(c,) for c in rng.sample(range(1, n), min(n - 1, 3))]
        for cuts in segs:
            jobs.append((len(jobs), it, cuts))
    recs = [t for part in pmap(run_real, [jobs[i::16] for i in range(16)]) for t in part]
    for t in recs:
        if t["raised"]:
            chk.violation({"kind": "parser_raised"}, "HTTPRequestParser.received raised %s on %r cuts=%s limits=%s" % (t["raised"], t["w"][:80], t["cuts"][:20], t["cfg"]["lim"]))
    traces = [{"id": t["id"], "cfg": t["cfg"], "ev": t["ev"]} for t in recs if t["ev"]]
    rej, _ = tv.validate(chk, "Trace_Parser", traces, "", name="TV:Parser %s" % pid, workers=1, java_opts=("-Xss64m",))
    byid = {str(t["id"]): t for t in recs}
    for i, (pos, clauses) in list(rej.items())[:4]:
        t = byid[i]
        chk.note_drift("HTTPRequestParser.received is not its transcription (ParserOps.tla): %s at read %d of %r (%s) cuts=%s limits=%s" % (
            clauses, pos, t["w"][:60], t["name"], t["cuts"][:12], t["cfg"]["lim"]))
    chk.extra["parser_inputs"] = len(items)
    chk.extra["parser_executions_bound"] = len(traces)
