"""C14 - worker pool: every task runs exactly once or is cancelled exactly once.

spec/DispatcherOps.tla (+Dispatcher.tla, Trace_Dispatcher.tla).
 MC : TLC explores every interleaving of handler threads, submitters, resizes
      and shutdown for a set of scenarios (invariants + liveness in thorough).
 TV : the same scenarios run on the REAL ThreadedTaskDispatcher under the
      deterministic scheduler (systematic pre-emption-bounded DFS + PCT walks);
      TLC validates every recorded schedule: each critical section must be a
      step of the model with the recorded post-state (M_*, drift) and the
      observable events must satisfy the property monitor (P_*, violation)."""
import concurrent.futures as cf
import json
import os
import random

from wv import h_dispatcher, tlc, tv
from wv.par import pmap

LEVEL = "model_checking"

BASE = [
    {"e1": [["resize", 2], ["submit", 1], ["submit", 2], ["submit", 3]]},
    {"e1": [["resize", 1], ["submit", 1], ["submit", 3]], "e2": [["submit", 2], ["resize", 2]]},
    {"e1": [["resize", 2], ["submit", 1], ["resize", 1]], "e2": [["submit", 2], ["submit", 4]]},
    {"e1": [["resize", 2], ["submit", 3], ["shutdown", 1]], "e2": [["submit", 1], ["submit", 2]]},
    {"e1": [["resize", 2], ["submit", 1], ["submit", 2], ["shutdown", 0]]},
    {"e1": [["resize", 3], ["resize", 1], ["resize", 2]], "e2": [["submit", 1], ["submit", 2]]},
    {"e1": [["resize", 1], ["submit", 4], ["submit", 1], ["resize", 0], ["resize", 1]]},
    {"e1": [["resize", 3], ["resize", 2], ["submit", 1], ["submit", 2]]},
    {"e1": [["resize", 2], ["submit", 1]], "e2": [["resize", 1], ["submit", 2]], "e3": [["submit", 3], ["shutdown", 1]]},
    {"e1": [["submit", 1], ["submit", 2], ["resize", 2], ["shutdown", 1]]},
    {"e1": [["resize", 2], ["resize", 1], ["shutdown", 1]], "e2": [["submit", 3], ["submit", 1]]},
    {"e1": [["resize", 3], ["submit", 1], ["submit", 2], ["submit", 3], ["submit", 4], ["resize", 1]]},
    # task 7 is a long poll that returns only once task 8 has run: both must be handed to a worker
    {"e1": [["resize", 2], ["submit", 7], ["submit", 8]]},
    {"e1": [["resize", 2], ["submit", 7]], "e2": [["submit", 8], ["submit", 1]]},
    {"e1": [["resize", 3], ["submit", 1], ["submit", 7], ["submit", 8], ["resize", 2]]},
]


def rand_scenario(rng, small=True):
    tasks = [1, 2, 3, 4]
    rng.shuffle(tasks)
    if small:
        tasks = tasks[:3]
    nenv = rng.randint(1, 2 if small else 3)
    scripts = {"e%d" % (i + 1): [] for i in range(nenv)}
    names = sorted(scripts)
    scripts[names[0]].append(["resize", rng.randint(1, 3)])
    for t in tasks[: rng.randint(1, 4)]:
        scripts[rng.choice(names)].append(["submit", t])
    for _ in range(rng.randint(0, 1 if small else 2)):
        n = rng.choice(names)
        scripts[n].insert(rng.randint(0, len(scripts[n])), ["resize", rng.randint(0, 3)])
    if rng.random() < 0.5:
        scripts[rng.choice(names)].append(["shutdown", rng.randint(0, 1)])
    return scripts


def tla_env(scn):
    names = sorted(scn)
    parts = []
    for n in names:
        ops = ", ".join('[op |-> "%s", arg |-> %d]' % (o, a) for o, a in scn[n])
        parts.append("%d :> <<%s>>" % (int(n[1:]), ops))
    return " @@ ".join(parts)


MC_CFG = """SPECIFICATION %s
CONSTANTS Workers = {0,1,2,3,4,5,6,7,8}
Tasks = {1,2,3,4,5,6,7,8}
Follow <- MCFollow
Waits <- MCWaits
Env <- MCEnv
INVARIANT ExactlyOnceInv
INVARIANT AccountedInv
INVARIANT FifoInv
INVARIANT ShutdownInv
INVARIANT Converges
INVARIANT NoStrandedTask
INVARIANT ActiveSane
%s
"""


def mc(i, scn, live):
    wd = tlc.scratch("mcd")
    mod = "MC_Disp_%d" % i
    with open(os.path.join(wd, mod + ".tla"), "w") as f:
        f.write("---- MODULE %s ----\nEXTENDS Dispatcher\nMCEnv == %s\nMCFollow == [t \\in 1..8 |-> IF t = 3 THEN 5 ELSE IF t = 4 THEN 6 ELSE 0]\nMCWaits == [t \\in 1..8 |-> IF t = 7 THEN 8 ELSE 0]\n====\n" % (mod, tla_env(scn)))
    cfg = MC_CFG % ("FairSpec" if live else "Spec", "PROPERTY EventuallyQuiescent" if live else "")
    try:
        return tlc.run(mod, cfg, workdir=wd, workers=4, deadlock=False, timeout=int(os.environ.get("WV_C14_TIMEOUT", "420")))
    finally:
        import shutil
        shutil.rmtree(wd, ignore_errors=True)


def run(chk, replay=None):
    rng = random.Random(chk.seed)
    scns = [dict(s) for s in BASE]
    for _ in range(24 if chk.thorough else 6):
        scns.append(rand_scenario(rng, small=not chk.thorough))
    if replay and replay.get("replay"):
        scns = [replay["replay"]["scenario"]]

    # ---- MC ---------------------------------------------------------------
    with cf.ThreadPoolExecutor(4) as ex:
        futs = {ex.submit(mc, i, s, chk.thorough and i < len(BASE)): (i, s) for i, s in enumerate(scns)}
        for fu in cf.as_completed(futs):
            i, s = futs[fu]
            r = fu.result()
            if r.error and r.error.startswith("TLC timed out") and i >= len(BASE) and not (replay and replay.get("replay")):
                # a randomly drawn scenario whose state space is too large for the budget (a few of the thorough
                # tier's are: 40 M states and more): recorded as not exhausted, never as a verdict
                chk.tlc_runs.append({"run": "MC:Dispatcher scenario %d" % i, "purpose": "NOT EXHAUSTED within the time budget (no verdict from this run): " + json.dumps(s),
                                     "generated": 0, "distinct": 0, "depth": 0, "wall_s": round(r.wall, 2), "violated": None})
                chk.extra["mc_scenarios_not_exhausted"] = chk.extra.get("mc_scenarios_not_exhausted", 0) + 1
                continue
            r = chk.add_tlc("MC:Dispatcher scenario %d" % i, r, json.dumps(s))
            if r.violated:
                chk.violation({"kind": "model", "invariant": r.violated},
                              "DispatcherOps.tla (model of the code) violates %s in scenario %s:\n%s" % (r.violated, s, "\n".join(r.trace[-2:])[:1500]),
                              replay={"scenario": s})

    # ---- real code under the scheduler -------------------------------------
    n_pct = 400 if chk.thorough else 60
    dfs_limit = 1500 if chk.thorough else 150
    jobs = [({"env": s}, chk.seed * 1000 + i, n_pct, dfs_limit, 2) for i, s in enumerate(scns)]
    results = pmap(h_dispatcher.explore_scenario, jobs)
    traces, meta = [], {}
    runs = 0
    for res in results:
        runs += res["runs"]
        for choices, evs in res["traces"]:
            t = len(traces)
            traces.append({"id": t, "cfg": {}, "ev": evs})
            meta[str(t)] = (res["scn"]["env"], choices)
    chk.extra["schedules_executed"] = runs
    chk.extra["distinct_event_sequences"] = len(traces)
    consts = "CONSTANTS Workers = {0,1,2,3,4,5,6,7,8,9}\nTasks = {1,2,3,4,5,6,7,8}\nFollow <- TFollow\nWaits <- TWaits\n"
    # Follow is fixed for all scenarios (tasks 3 and 4 submit 5 and 6)
    wd_mod = "Trace_Dispatcher"
    rej, drift = tv.validate(chk, wd_mod, traces, consts, name="TV:Dispatcher", workers=8)
    for t in traces:
        kinds = {e["k"] for e in t["ev"]}
        chk.count(1, ("sched", t["id"]) if ("cancelled" in kinds or "returned" in kinds or sum(1 for e in t["ev"] if e["k"] == "ran") >= 2) else None)
    for i, (pos, clauses) in rej.items():
        scn, choices = meta[i]
        chk.violation({"kind": "dispatcher", "clauses": sorted(clauses)},
                      "scenario %s: event %d %s violates %s (schedule of %d steps)" % (
                          scn, pos, traces[int(i)]["ev"][pos - 1] if pos <= len(traces[int(i)]["ev"]) else "end", clauses, len(choices)),
                      replay={"scenario": scn, "schedule": choices})
    for i, (pos, clauses) in list(drift.items())[:5]:
        scn, choices = meta[i]
        chk.note_drift("real dispatcher took a step the model lacks: scenario %s event %d %s" % (scn, pos, traces[int(i)]["ev"][pos - 1]))
    if traces:
        chk.sample({"scenario": meta["0"][0], "schedule": meta["0"][1][:40], "events": traces[0]["ev"][:12]})
    chk.rule = ("cases = schedules of the real ThreadedTaskDispatcher (pre-emption-bounded DFS, bound 2, + PCT walks) over %d scenarios of submit/resize/shutdown scripts; "
                "evaluations = distinct recorded event sequences validated by TLC; non-trivial = a schedule in which >= 2 tasks ran or shutdown/cancellation occurred" % len(scns))
    chk.evaluations = len(traces)
    chk.assumptions += ["critical sections of the dispatcher are atomic in the model; the harness makes every lock operation and every access to queue/threads/stop_count/active_count a pre-emption point on the real code",
                        "tasks 3 and 4 submit follow-up tasks 5 and 6 from their body (as connections do)",
                        "timed waits: the scheduler decides when the 0.1 s wait times out (virtual clock)"]
