"""C18 - connection limit holds; idle connections are reaped, busy ones never.

spec/ServerOps.tla models BaseWSGIServer.readable()/maintenance()/handle_accept(),
the channel's readable/writable/handle_read/handle_write and the select-based
poll() under an integer clock.
 MC : TLC explores all histories of connect / send-partial / send-rest /
      client-reads / client-stalls / app-finishes / tick events (Server.tla).
 TV : seeded histories run on REAL server objects sharing a socket map (fake
      sockets, virtual clock); TLC validates every step against the model
      (post-state projection: M_*, drift) and the property monitor (P18_*)."""
import concurrent.futures as cf
import random

from wv import h_server, tlc, tv
from wv.par import pmap

LEVEL = "model_checking"
CLAUSES = ["P18_descriptors_never_exceed_connection_limit", "P18_accepting_resumes_below_the_limit", "P18_idle_connection_reaped_in_time",
           "P18_idle_connection_with_stalled_peer_reaped_in_time", "P18_busy_connection_never_reaped"]
MAXCONN = 6

MC_CFG = """SPECIFICATION Spec
CONSTANTS MaxConn = %d
NL = %d
Limit = %d
Timeout = %d
Cleanup = %d
MaxTicks = %d
INVARIANT LimitInv
INVARIANT ResumeInv
INVARIANT %s
PROPERTY NeverReapBusy
"""


def gen_and_run(args):
    cfg, seed, length = args
    from wv.core import repo_on_path
    repo_on_path()
    rng = random.Random(seed)
    w = h_server.World(cfg["nl"], cfg["limit"], cfg["timeout"], cfg["cleanup"], MAXCONN)
    out = []
    nconn = 0
    partial = {}
    try:
        snap = w.snapshot()
        for _ in range(length):
            en = []
            if nconn < MAXCONN:
                en += [{"k": "connect", "c": nconn + 1, "l": rng.randint(1, cfg["nl"]), "dt": 0}] * 3
            for c in range(1, nconn + 1):
                ch = snap["ch"][c - 1]
                sk = w.socks[c]
                if ch["st"] in ("open", "queued") and not ch["busy"]:
                    if not sk.inbox and not partial.get(c):
                        en.append({"k": "sendPartial", "c": c, "l": 0, "dt": 0})
                    if len(sk.inbox) == 0 or partial.get(c):
                        en += [{"k": "sendRest", "c": c, "l": 0, "dt": 0}] * 2
                if ch["st"] == "open":
                    en.append({"k": "clientStalls" if ch["room"] else "clientReads", "c": c, "l": 0, "dt": 0})
                    if ch["busy"]:
                        en += [{"k": "appFinishes", "c": c, "l": 0, "dt": 0}] * 2
            en += [{"k": "tick", "c": 1, "l": 0, "dt": 1}] * (4 + len(en) // 2)
            e = dict(rng.choice(en))
            if e["k"] == "connect":
                nconn += 1
            if e["k"] == "sendPartial":
                partial[e["c"]] = True
            if e["k"] == "sendRest":
                partial[e["c"]] = False
            try:
                w.apply(e)
            except Exception as ex:
                e["snap"] = w.snapshot()
                e["raised"] = repr(ex)[:200]
                out.append(e)
                break
            snap = w.snapshot()
            e["snap"] = snap
            out.append(e)
    finally:
        w.close()
    return cfg, out


def run(chk, replay=None):
    rng = random.Random(chk.seed)
    # ---- MC ---------------------------------------------------------------
    mcs = [(2, 1, 3, 2, 1, 6), (3, 1, 4, 2, 1, 5), (2, 2, 5, 2, 1, 5)] + ([(3, 1, 5, 2, 2, 7), (3, 2, 6, 2, 1, 6), (3, 2, 6, 3, 2, 7), (3, 2, 5, 3, 2, 8), (4, 1, 5, 2, 1, 4), (4, 1, 3, 2, 1, 5)] if chk.thorough else [])
    # (sizes: 0.5 - 4.4 M states, 20 - 140 s each; four connections with two listeners or more than 4 ticks exceed 40 M states)
    with cf.ThreadPoolExecutor(3) as ex:
        futs = {}
        for (mc, nl, lim, to, cl, ticks) in mcs:
            futs[ex.submit(tlc.run, "Server", MC_CFG % (mc, nl, lim, to, cl, ticks, "ReapInv"), workers=5, deadlock=False, timeout=1500)] = ("ReapInv", mc, nl, lim, to, cl)
        futs[ex.submit(tlc.run, "Server", MC_CFG % (2, 1, 4, 2, 1, 7, "ReapAllInv"), workers=4, deadlock=False, timeout=600)] = ("ReapAllInv", 2, 1, 4, 2, 1)
        for fu in cf.as_completed(futs):
            inv, mc, nl, lim, to, cl = futs[fu]
            r = chk.add_tlc("MC:Server %s conns=%d listeners=%d limit=%d timeout=%d cleanup=%d" % (inv, mc, nl, lim, to, cl), fu.result(), "all event histories")
            if r.violated:
                stalled = inv == "ReapAllInv" and r.violated == "ReapAllInv"
                chk.violation({"kind": "model", "invariant": r.violated, "stalled_peer": stalled},
                              "ServerOps.tla (the model of the code) violates %s (listeners=%d limit=%d timeout=%d cleanup=%d); last states:\n%s" % (
                                  r.violated, nl, lim, to, cl, "\n".join(r.trace[-1:])[:900]))
    # ---- real server objects ------------------------------------------------
    cfgs = [{"nl": 1, "limit": 4, "timeout": 2, "cleanup": 1}, {"nl": 1, "limit": 5, "timeout": 3, "cleanup": 2}, {"nl": 2, "limit": 6, "timeout": 2, "cleanup": 1},
            {"nl": 2, "limit": 7, "timeout": 2, "cleanup": 3}, {"nl": 1, "limit": 3, "timeout": 4, "cleanup": 1}, {"nl": 1, "limit": 100, "timeout": 4, "cleanup": 2},
            # a long timeout against a short scan period: the reaper must scan every cleanup_interval, not every channel_timeout
            {"nl": 1, "limit": 4, "timeout": 7, "cleanup": 1}, {"nl": 1, "limit": 5, "timeout": 9, "cleanup": 2},
            # a short timeout against a long scan period: a connection idle for channel_timeout at a scan goes at that scan
            # (not one scan later), and the limit is reached, left (by reaping) and reached again within one scan period
            {"nl": 1, "limit": 3, "timeout": 1, "cleanup": 4}, {"nl": 1, "limit": 4, "timeout": 2, "cleanup": 6}, {"nl": 2, "limit": 3, "timeout": 1, "cleanup": 5}]
    n = 260 if chk.thorough else 40
    jobs = [(c, chk.seed * 7 + i * 31 + j, rng.randint(14, 40) if max(c["timeout"], c["cleanup"]) < 4 else rng.randint(40, 70)) for i, c in enumerate(cfgs) for j in range(n)]
    results = pmap(gen_and_run, jobs, chunksize=8)
    traces, meta = [], {}
    for cfg, evs in results:
        t = len(traces)
        traces.append({"id": t, "cfg": cfg, "ev": [{k: v for k, v in e.items() if k != "raised"} for e in evs]})
        meta[str(t)] = (cfg, evs)
        for e in evs:
            if "raised" in e:
                chk.violation({"kind": "raised"}, "history %s raised %s" % ([(x["k"], x["c"]) for x in evs], e["raised"]))
    consts = "CONSTANTS MaxConn = %d\nFocus = {%s}\n" % (MAXCONN, ", ".join('"%s"' % c for c in CLAUSES))
    rej, drift = tv.validate(chk, "Trace_Server", traces, consts, name="TV:Server", workers=12)
    for t in traces:
        evs = t["ev"]
        closed = any(ch["st"] == "closed" for ch in evs[-1]["snap"]["ch"]) if evs else False
        over = any(any(e["snap"]["over"]) for e in evs)
        chk.count(1, ("h", t["id"]) if (closed or over) else None)
    for i, (pos, clauses) in rej.items():
        cfg, evs = meta[i]
        sn = evs[pos - 1]["snap"]
        stalled = "P18_idle_connection_with_stalled_peer_reaped_in_time" in clauses and len(clauses) == 1
        chk.violation({"kind": "history", "clauses": sorted(clauses), "stalled_peer": stalled},
                      "cfg %s history %s -> snapshot %s violates %s" % (cfg, [(e["k"], e["c"]) for e in evs[:pos]], sn, sorted(clauses)),
                      replay={"cfg": cfg, "events": [{k: v for k, v in e.items() if k != "snap"} for e in evs[:pos]]})
    for i, (pos, clauses) in list(drift.items())[:5]:
        cfg, evs = meta[i]
        chk.note_drift("real server and ServerOps.tla disagree after %s (cfg %s): recorded %s" % ([(e["k"], e["c"]) for e in evs[:pos]][-6:], cfg, evs[pos - 1]["snap"]))
    if traces:
        cfg, evs = meta["1"]
        chk.sample({"cfg": cfg, "history": [(e["k"], e["c"]) for e in evs][:25], "last_snapshot": evs[-1]["snap"]})
    chk.rule = ("MC: every event history of the model up to MaxTicks clock ticks with 3-4 connections, 1-2 listening sockets, small limits/timeouts; "
                "TV: %d seeded histories of 14-40 events on real server objects (6 configurations incl. two listening sockets and a large limit), each step validated by TLC against model and monitor; "
                "non-trivial = a history in which a connection was closed or a listener entered overflow" % len(traces))
    chk.assumptions += ["single-threaded: application work is an event (app-finishes); the race between the end of service() and maintenance is outside this check (see DESIGN.md)",
                        "a peer that stops reading is modelled as a socket that is not writable"]
