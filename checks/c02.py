"""C02 - parsing does not depend on how the byte stream is split across reads.

Every stream of the C01 corpus (plus oversize / limit streams) is delivered in
one piece, one byte at a time, under every single cut, and (one representative
per family) under pairs of cuts and random k-cuts, to a fresh connection of
the real server; TLC checks each distinct outcome against Framing.tla and
requires it to equal the one-piece outcome."""
import random

from checks import framing_common as fc
from checks import framing_gen

LEVEL = "model_checking"
DEFAULT = {"maxh": 262144, "maxb": 1073741824}


def run(chk, replay=None):
    # the incremental chunked decoder, transcribed (spec/ReceiverOps.tla): every segmentation of a corpus of chunked
    # bodies on the model (outcome independent of the cuts, and the grammar's), model bound to the real decoder
    from checks import recv_model
    recv_model.model_check(chk, "C02")
    # ... and HTTPRequestParser.received itself (spec/ParserOps.tla): head buffering, limits, hand-over to the receivers
    from checks import parser_model
    parser_model.model_check(chk, "C02")
    rng = random.Random(chk.seed)
    corpus = framing_gen.corpus(False, rng)
    sent = framing_gen.sentences() + framing_gen.framing_variants()
    follow = framing_gen.msg(target=b"/next", headers=[framing_gen.HOST])
    items = []
    seen_family = set()
    for i, (n, s) in enumerate(corpus):
        fam = fc.family(n)
        mutated = "~" in n
        if mutated and not chk.thorough and i % 4:
            continue
        mode = "single"
        if not mutated and "+next" in n and fam not in seen_family:
            seen_family.add(fam)
            mode = "pairs"
        items.append((n, s, DEFAULT, mode, chk.seed * 104729 + i))
    # limits that are crossed in the middle of the stream
    for n, s in sent[:16]:
        m = s + follow
        head = s.find(b"\r\n\r\n") + 4
        for d in (-1, 0, 1):
            items.append((n + "@maxh%+d" % d, m, {"maxh": max(head + d, 1), "maxb": 1073741824}, "single", chk.seed + len(items)))
        blen = len(s) - head
        if blen > 0:
            for d in (-1, 0, 1):
                items.append((n + "@maxb%+d" % d, m, {"maxh": 262144, "maxb": max(blen + d, 1)}, "single", chk.seed + len(items)))
    # a chunked body that is malformed and also reaches the body limit (known finding K-C02-400-or-413)
    bad = framing_gen.msg(method=b"POST", headers=[framing_gen.HOST, (b"Transfer-Encoding", b"chunked")], raw_body=b"g\r\nabc\r\n0\r\n\r\n")
    items.append(("chunk-bad-and-over-limit@maxb=8", bad + follow, {"maxh": 262144, "maxb": 8}, "single", chk.seed + len(items)))
    traces, meta, rej = fc.execute(chk, "C02", fc.C02 + fc.C01, items)
    for t in traces:
        chk.count(1, ("s", t["id"]) if len(meta[str(t["id"])]["stream"]) > 30 else None)
    rec = meta["5"]
    chk.sample({"name": rec["name"], "stream": rec["stream"].decode("latin-1"), "segmentations": rec["nseg"], "distinct_outcomes": len(rec["variants"])})
    chk.rule = ("for each stream: one piece, byte-at-a-time, every single cut, random k-cuts; one pipelined representative per sentence family additionally under up to 400 pairs of cuts; "
                "streams = the C01 corpus + streams whose header/body limit is crossed at -1/0/+1; non-trivial = stream longer than 30 bytes; TLC requires every distinct outcome to conform to Framing.tla and to equal the one-piece outcome")
    chk.assumptions += ["all 2^(n-1) segmentations are not enumerated; single cuts exercise each of the six carry-over places, pairs their interactions (DESIGN.md C02)"]
