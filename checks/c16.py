"""C16 - trusted proxy headers: only trusted kinds, only trusted hops, never a crash (spec/Proxy.tla, clauses P16_*)."""
from checks import proxy_common as pc

LEVEL = "model_checking"


def run(chk, replay=None):
    pc.execute(chk, "C16", pc.C16, want_trusted=True)
    chk.rule = ("cases = (trusted_proxy_count 1..4, allowed subset of trusted_proxy_headers, header assignment from the element vocabulary of Proxy.tla incl. degenerate elements); "
                "each case runs three times on the real server (as generated / without proxy headers / cut down to the trusted hops and kinds); TLC evaluates hop selection, 400 on uninterpretable headers, hiding of left hops and untrusted kinds, totality")
    chk.assumptions += ["element classification (ok/bad/free) is the specification's reading of the property statement; 'free' elements are only required not to crash"]
