"""C04 - pipelined requests: in order, exactly once, never mixed, under every schedule.

Real server under the deterministic scheduler (DFS with pre-emption bound +
PCT walks) over pipelining scenarios; TLC judges every recorded trace with the
property monitor spec/Pipeline.tla (clauses P04_*), and model-checks the
implementation-shaped connection model spec/Channel.tla (see checks/chan_model.py)."""
from checks import chan_common as cc
from checks import chan_random
from checks import chan_model

LEVEL = "model_checking"


def scenarios(thorough):
    P = lambda k: {"k": k, "kind": "plain"}
    out = []
    for la in (0, 1, 2):
        for workers in (1, 2):
            out.append(cc.mk([P(1), P(2)], lookahead=la, workers=workers, name="2plain la=%d w=%d" % (la, workers)))
        out.append(cc.mk([P(1), P(2), P(3)], lookahead=la, workers=2, split="each", name="3plain each la=%d" % la))
    out.append(cc.mk([{"k": 1, "kind": "body"}, P(2)], lookahead=1, workers=2, split="half", name="body+plain half"))
    out.append(cc.mk([{"k": 1, "kind": "chunked"}, P(2)], lookahead=0, name="chunked+plain"))
    out.append(cc.mk([P(1), {"k": 2, "kind": "close"}, P(3)], lookahead=2, workers=2, name="plain,close,plain la=2"))
    out.append(cc.mk([P(1), {"k": 2, "kind": "http10"}], lookahead=1, name="plain,http10"))
    out.append(cc.mk([{"k": 1, "kind": "expect"}, P(2)], lookahead=0, name="expect(complete)+plain"))
    out.append(cc.mk([P(1), {"k": 2, "kind": "expect"}], lookahead=0, split="headbody", waits=(2,), name="plain,expect(waits) la=0"))
    out.append(cc.mk([P(1), {"k": 2, "kind": "expect"}], lookahead=1, workers=2, split="headbody", waits=(2,), name="plain,expect(waits) la=1"))
    out.append(cc.mk([P(1), P(2)], lookahead=0, room=60, extra_client=[["read", 100], ["readall"]], name="2plain partial sends",
                     apps={1: {"chunks": [40, 40]}, 2: {"chunks": [30]}}))
    out.append(cc.mk([P(1), P(2)], lookahead=1, workers=2, room=0, extra_client=[["read", 7], ["read", 200], ["readall"]],
                     apps={1: {"chunks": [20], "cl": "none"}, 2: {"chunks": [5, 5], "write": True}}, name="2plain room0 chunked+write"))
    # a reader that takes a few bytes at a time once both responses are queued (each response has its own out buffer):
    # partial sends with several out buffers pending
    out.append(cc.mk([P(1), P(2)], lookahead=1, workers=1, room=10, extra_client=[["read_after_block", 2, 25], ["read_after_block", 4, 60], ["readall_after_block", 5]],
                     apps={1: {"chunks": [40]}, 2: {"chunks": [30]}}, name="2plain la=1, reader takes 25, 60, then all"))
    out.append(cc.mk([P(1), P(2), P(3)], lookahead=2, workers=2, room=0, extra_client=[["read_after_block", 3, 200], ["read_after_block", 4, 100], ["readall_after_block", 5]],
                     name="3plain la=2, reader takes 200, 100, then all"))
    # more than outbuf_high_watermark pending when a request ends and the next one is already queued: the worker
    # drains (service-time watermark flush) while the I/O thread may be in handle_write
    out.append(cc.mk([P(1), P(2)], lookahead=1, workers=1, room=30, extra_client=[["read_after_block", 1, 40], ["read_after_block", 2, 50], ["readall_after_block", 3]],
                     apps={1: {"chunks": [60]}, 2: {"chunks": [30]}}, adj={"outbuf_high_watermark": 50}, name="2plain la=1 hwm=50, backlog above the mark at the end of a request"))
    # the head of an expecting request behind a running request, and a client that sends the body without waiting
    for la in (0, 1):
        out.append(cc.mk([P(1), {"k": 2, "kind": "expect"}], lookahead=la, workers=1, split="joinheads", waits=(), body_in_two=True, name="plain+expect-head in one read, body sent in two pieces without waiting, la=%d" % la))
        out.append(cc.mk([P(1), {"k": 2, "kind": "expect"}], lookahead=la, workers=2, split="headbody", waits=(), body_in_two=True, name="plain, expect head, body in two pieces - client never waits, la=%d" % la))
    # an out buffer that spills to a file while partly sent, with a pipelined follower behind it
    out.append(cc.mk([P(1), P(2)], lookahead=1, workers=1, room=30, extra_client=[["readall_after_block", 4]],
                     apps={1: {"chunks": [40] * 8}}, adj={"outbuf_high_watermark": 1000, "outbuf_overflow": 250}, name="2plain la=1, out buffer spills while partly sent"))
    # the same with a socket that accepts nothing at first (output stays pending while the worker finishes)
    slow = [["readall_after_block", 1]]
    out.append(cc.mk([P(1), P(2)], lookahead=1, workers=2, room=0, extra_client=slow, name="2plain la=1 slow client"))
    out.append(cc.mk([P(1), {"k": 2, "kind": "expect"}], lookahead=1, workers=1, room=0, split="headbody", waits=(2,),
                     read_before_await=True, name="plain,expect(waits) la=1 slow client"))
    out.append(cc.mk([P(1), {"k": 2, "kind": "expect"}], lookahead=2, workers=2, room=0, split="headbody", waits=(2,),
                     read_before_await=True, name="plain,expect(waits) la=2 slow client"))
    out.append(cc.mk([P(1), {"k": 2, "kind": "close"}], lookahead=1, workers=1, room=0, extra_client=slow, name="plain,close la=1 slow client"))
    for la in (0, 1):
        out.append(cc.mk([P(1), {"k": 2, "kind": "expect"}], lookahead=la, workers=1, room=0, split="joinheads", waits=(2,),
                         read_before_await=True, name="plain+expect-head in one read (waits) la=%d slow client" % la))
    out.append(cc.mk([P(1), {"k": 2, "kind": "expect"}, P(3)], lookahead=0, workers=2, split="joinheads", waits=(2,),
                     name="plain+expect-head in one read, then plain"))
    # two complete requests in front of the head of an expecting one: its interim response comes after both responses
    for la in (0, 2):
        out.append(cc.mk([P(1), P(2), {"k": 3, "kind": "expect"}], lookahead=la, workers=1, split="joinheads", waits=(3,),
                         name="2plain+expect-head in one read (waits) la=%d" % la))
    # stray CRLFs between two requests (an empty message the server drops): nothing is scheduled for them
    for la, w in ((0, 2), (1, 2), (2, 1)):
        out.append(cc.mk([P(1), {"k": 2, "kind": "plain", "lead": 2}], lookahead=la, workers=w, split="one", name="plain, CRLF CRLF, plain in one read la=%d w=%d" % (la, w)))
    out.append(cc.mk([{"k": 1, "kind": "body"}, {"k": 2, "kind": "plain", "lead": 1}, {"k": 3, "kind": "plain", "lead": 2}], lookahead=1, workers=2, split="each",
                     name="body, CRLF plain, CRLF CRLF plain, one read each la=1 w=2"))
    if thorough:
        out.append(cc.mk([P(1), P(2), P(3)], lookahead=2, workers=2, use_poll=True, name="3plain poll la=2"))
        out.append(cc.mk([P(1), {"k": 2, "kind": "body"}, {"k": 3, "kind": "expect"}], lookahead=1, workers=2, split="each", name="plain,body,expect each"))
    return out


def run(chk, replay=None):
    scns = scenarios(chk.thorough)
    chan_model.model_check(chk, "C04", scns)
    n_pct, dfs = (700, 2400) if chk.thorough else (150, 700)
    cc.explore_and_validate(chk, "C04", scns, n_pct, dfs, bound=2, label="pipelining")
    chan_random.explore(chk, "C04")
    chk.rule = ("cases = schedules of the real server (I/O loop + workers + client, pre-emption at every lock/socket/trigger operation and every access to a shared channel attribute) "
                "over %d pipelining scenarios; DFS with pre-emption bound 2 + PCT priority walks; evaluations = distinct recorded traces judged by TLC; "
                "non-trivial = >= 2 requests executed or a close/teardown occurred" % len(scns))
    chk.assumptions += ["simulated kernel (sockets, pipe, select/poll) instead of the OS", "schedule exhaustiveness on the code is bounded; unbounded only on the model"]
