"""C12 - output buffering is bounded: fast producers are paused and always released.

spec/Channel.tla (write_soon, _flush_outbufs_below_high_watermark with the
Condition wait/notify, _flush_some_if_lockable, handle_close; output counted in
bytes) is model-checked for BacklogBounded, ProducerReleased, NoLostWakeup and
the liveness property ComesToRest.  One producing worker and the draining I/O
thread of the real server run under the deterministic scheduler with small
watermarks; their executions are validated step by step against the model and
TLC judges the observable traces with the monitor clauses P12_* (+ wire
integrity P04_*) of spec/Pipeline.tla."""
import errno

from checks import chan_common as cc
from checks import chan_random
from checks import chan_model

LEVEL = "model_checking"


def scenarios(thorough):
    P = lambda k: {"k": k, "kind": "plain"}
    out = []
    for hwm, sb in ((50, 1), (0, 1), (1, 1), (100, 100), (40, 0)):
        for write in (False, True):
            for sizes in ([30, 30, 30], [60, 10, 60], [49, 1, 1, 50]):
                if not thorough and (write and sizes != [30, 30, 30]) and hwm != 50:
                    continue
                out.append(cc.mk([P(1)], room=40, extra_client=[["read", 30], ["read", 45], ["readall"]],
                                 apps={1: {"chunks": sizes, "write": write, "cl": "none" if write else "exact"}},
                                 adj={"outbuf_high_watermark": hwm, "send_bytes": sb},
                                 name="hwm=%d send_bytes=%d %s sizes=%s partial drain" % (hwm, sb, "write()" if write else "iter", sizes)))
    # stall then disconnect while the producer is parked
    for how in ("close", "reset"):
        out.append(cc.mk([P(1)], room=10, extra_client=[["read", 5], [how]], drains=False,
                         apps={1: {"chunks": [40, 40, 40], "cl": "none"}}, adj={"outbuf_high_watermark": 30},
                         name="producer parked, client %s" % how))
        out.append(cc.mk([P(1)], lookahead=1, room=10, extra_client=[["read", 5], [how]], drains=False,
                         apps={1: {"chunks": [40, 40, 40], "cl": "none"}}, adj={"outbuf_high_watermark": 30},
                         name="producer parked, lookahead=1 (the I/O thread sees the disconnect in recv), client %s" % how))
    # an output buffer that spills to a file while it is partly sent
    # (the first partial send turns the byte string into a BytesIO buffer with a read position; growing past outbuf_overflow converts that to a file)
    for ov, sizes in ((250, [40] * 8), (300, [60, 10, 60, 60, 60, 60]), (1, [20, 20])):
        out.append(cc.mk([P(1)], room=30, extra_client=[["readall_after_block", 4 if ov > 1 else 1]],
                         apps={1: {"chunks": sizes, "cl": "none"}}, adj={"outbuf_high_watermark": 1000, "outbuf_overflow": ov},
                         name="outbuf_overflow=%d sizes=%s, spill while partly sent" % (ov, sizes)))
    # more than the mark pending when a request ends and the next one is already queued: the worker drains
    # (pauses) between the two requests
    for la in (1, 2):
        out.append(cc.mk([P(1), P(2)], lookahead=la, workers=1, room=30, extra_client=[["read_after_block", 1, 40], ["read_after_block", 2, 50], ["readall_after_block", 3]],
                         apps={1: {"chunks": [60]}, 2: {"chunks": [30]}}, adj={"outbuf_high_watermark": 50}, name="backlog above the mark at the end of a request, follower queued, la=%d" % la))
    # many writes to a reader that takes a few bytes each time the socket was found full: every flush of the paused
    # producer sends something, the backlog must stay at the mark all the same
    for take in (5, 20):
        out.append(cc.mk([P(1)], room=10, extra_client=[["read_after_block", k, take] for k in range(1, 14)] + [["readall_after_block", 14]],
                         apps={1: {"chunks": [40] * 10, "cl": "none"}}, adj={"outbuf_high_watermark": 50},
                         name="ten writes, reader takes %d bytes per stall, hwm=50" % take))
    # a send error (not a disconnect) while the producer is above the mark: the producer waits for the I/O thread
    # to tear the connection down and is then released with its request aborted
    import errno
    for nth in (2, 3):
        out.append(cc.mk([P(1)], room=10, extra_client=[["read_after_block", 2, 5]], drains=False,
                         faults={"send": [None] * nth + [errno.EHOSTUNREACH] * 6}, apps={1: {"chunks": [40, 40, 40, 40, 40], "cl": "none"}},
                         adj={"outbuf_high_watermark": 30}, name="producer above the mark, send#%d.. fail EHOSTUNREACH" % (nth + 1)))
    # the producer's own flush fails (after a partial send) and what is left is below send_bytes and the mark: the
    # connection is condemned all the same and the producer released
    for e in (errno.EHOSTUNREACH, errno.ETIMEDOUT):
        out.append(cc.mk([P(1)], room=60, extra_client=[], drains=False, faults={"send": [None, e]},
                         apps={1: {"chunks": [40, 40], "cl": "none"}}, adj={"outbuf_high_watermark": 100, "send_bytes": 300},
                         name="send_bytes=300 hwm=100, the producer's flush sends 60 bytes then fails %s" % errno.errorcode[e]))
    out.append(cc.mk([P(1), P(2)], lookahead=1, workers=2, room=20, extra_client=[["read", 40], ["readall"]],
                     apps={1: {"chunks": [40, 40]}, 2: {"chunks": [40]}}, adj={"outbuf_high_watermark": 30}, name="two pipelined producers hwm=30"))
    out.append(cc.mk([P(1)], room=0, extra_client=[["readall_after_block", 1]], apps={1: {"chunks": [200, 200], "write": True, "cl": "none"}},
                     adj={"outbuf_high_watermark": 100, "send_bytes": 300}, name="send_bytes above watermark (degenerate)"))
    return out


def run(chk, replay=None):
    scns = scenarios(chk.thorough)
    chan_model.model_check(chk, "C12", scns)
    n_pct, dfs = (800, 3000) if chk.thorough else (80, 400)
    cc.explore_and_validate(chk, "C12", scns, n_pct, dfs, bound=2, label="watermark")
    chan_random.explore(chk, "C12")
    chk.rule = ("cases = schedules of one producing worker + draining I/O thread over %d scenarios (watermark/send_bytes incl. 0 and 1, write sizes below/at/above the mark, "
                "partial drains, stall, disconnect); evaluations = distinct traces judged by TLC" % len(scns))
    chk.assumptions += ["pending output = max value ever stored in total_outbufs_len; one write = largest payload handed to write_soon", "simulated kernel"]
