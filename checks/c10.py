"""C10 - framing-critical tokens are accepted exactly per grammar, at any length.

spec/Lex.tla holds the grammar automata.  For each of the five gates the
implementation automaton is extracted from the compiled pattern in /repo (its
match mode read from the call site with `ast`), composed with the call-site
processing, and TLC exhausts the product with the grammar automaton: language
inclusion both ways for strings of every length.  The composed automaton and
the grammar are both confronted with the REAL call site on all strings up to a
length over the byte-class alphabet (TLC judges those too)."""
import ast
import itertools
import os
import random
import shutil

from wv import rx, tlc, tv
from wv.core import MachineryFailure, SRC

LEVEL = "model_checking"
WS = [9, 10, 11, 12, 13, 32]


def call_mode(path, name):
    """match mode used on the compiled pattern `name` in the given source file"""
    tree = ast.parse(open(path).read())
    modes = set()
    for node in ast.walk(tree):
        if isinstance(node, ast.Call) and isinstance(node.func, ast.Attribute) and node.func.attr in ("match", "fullmatch", "search"):
            v = node.func.value
            if isinstance(v, ast.Name) and v.id == name:
                modes.add(node.func.attr)
    if len(modes) != 1 or "search" in modes:
        raise MachineryFailure("cannot determine the match mode of %s in %s: %s" % (name, path, modes))
    return modes.pop()


def strip_sets(path):
    """which bytes the call site strips before / after the request line:
    (leading set applied to the head block, trailing set applied to the first line)"""
    tree = ast.parse(open(path).read())
    lead, trail = set(), set()

    def arg_set(call):
        if not call.args:
            return set(WS)
        a = call.args[0]
        if isinstance(a, ast.Constant) and isinstance(a.value, (bytes, str)):
            v = a.value
            return set(v if isinstance(v, bytes) else v.encode("latin-1"))
        raise MachineryFailure("cannot evaluate strip() argument at line %d of %s" % (call.lineno, path))

    def mentions(node, names):
        return any(isinstance(n, ast.Name) and n.id in names for n in ast.walk(node))

    for fn in ast.walk(tree):
        if isinstance(fn, ast.FunctionDef) and fn.name in ("received", "parse_header"):
            for node in ast.walk(fn):
                if isinstance(node, ast.Assign) and isinstance(node.value, ast.Call) and isinstance(node.value.func, ast.Attribute):
                    c = node.value
                    tgt = node.targets[0]
                    tname = tgt.id if isinstance(tgt, ast.Name) else ""
                    if c.func.attr in ("lstrip", "strip") and tname == "header_plus" and mentions(c.func.value, {"header_plus"}):
                        lead |= arg_set(c)
                    if c.func.attr in ("rstrip", "strip") and tname == "first_line" and mentions(c.func.value, {"header_plus", "first_line"}):
                        trail |= arg_set(c)
                    if c.func.attr in ("lstrip", "strip") and tname == "first_line" and mentions(c.func.value, {"header_plus", "first_line"}):
                        lead |= arg_set(c)
    return sorted(lead), sorted(trail)


def no_crlf_bytes():
    return rx.make(2, 0, {0}, lambda q, b: 1 if (q == 1 or b in (10, 13)) else 0)


def no_crlf_pair(extra_dead=()):
    # 0 ok, 1 saw CR, 2 dead
    def f(q, b):
        if q == 2 or b in extra_dead:
            return 2
        if q == 1 and b == 10:
            return 2
        return 1 if b == 13 else 0
    return rx.make(3, 0, {0, 1}, f)


def gates():
    from waitress import parser, receiver, rfc7230
    pfile = os.path.join(SRC, "waitress", "parser.py")
    rfile = os.path.join(SRC, "waitress", "receiver.py")
    g = {}
    # Content-Length value: header value, OWS-stripped, cannot contain CR/LF (get_header_lines refuses)
    d = rx.dfa_of(rfc7230.ONLY_DIGIT_RE, call_mode(pfile, "ONLY_DIGIT_RE"))
    g["digit"] = {"impl": d, "domain": no_crlf_bytes()}
    # chunk size: control line up to the first CRLF, cut at ';'
    d = rx.dfa_of(rfc7230.ONLY_HEXDIG_RE, call_mode(rfile, "ONLY_HEXDIG_RE"))
    g["hex"] = {"impl": d, "domain": no_crlf_pair(extra_dead=(59,))}
    d = rx.dfa_of(rfc7230.CHUNK_EXT_RE, call_mode(rfile, "CHUNK_EXT_RE"))
    first_semicolon = rx.make(3, 0, {1}, lambda q, b: (1 if b == 59 else 2) if q == 0 else q)
    g["ext"] = {"impl": d, "domain": rx.intersect(no_crlf_pair(), first_semicolon)}
    d = rx.dfa_of(rfc7230.HEADER_FIELD_RE, call_mode(pfile, "HEADER_FIELD_RE"))
    g["hdr"] = {"impl": d, "domain": no_crlf_bytes()}
    # request line: lstrip() of the head, rstrip() of the first line, CR/LF check, fullmatch, upper-case method
    a = rx.dfa_of(parser.first_line_re, call_mode(pfile, "first_line_re"))
    a = rx.intersect(a, no_crlf_bytes())
    lead, trail = strip_sets(pfile)
    if trail:
        not_end = rx.make(2, 0, {0}, lambda q, b: 1 if b in trail else 0)
        a = rx.intersect(a, not_end)
    upper_method = rx.make(3, 0, {0, 1}, lambda q, b: q if q else (1 if b == 32 else (2 if 97 <= b <= 122 else 0)))
    a = rx.intersect(a, upper_method)
    if lead or trail:
        a = rx.surround(a, lead, trail)
    g["req"] = {"impl": a, "domain": no_crlf_pair()}
    return g


# ---- the real call sites --------------------------------------------------
def real_verdict(gate, x):
    """(accepted, raised) of the real code for byte string x in the gate position."""
    from waitress.adjustments import Adjustments
    from waitress.buffers import OverflowableBuffer
    from waitress.parser import HTTPRequestParser
    from waitress.receiver import ChunkedReceiver
    from waitress.utilities import RequestEntityTooLarge
    try:
        if gate == "digit":
            p = HTTPRequestParser(Adjustments())
            p.received(b"POST / HTTP/1.1\r\nContent-Length: " + x + b"\r\n\r\n")
            return (p.error is None or isinstance(p.error, RequestEntityTooLarge)), False
        if gate == "hdr":
            p = HTTPRequestParser(Adjustments())
            p.received(b"GET / HTTP/1.1\r\n" + x + b"\r\n\r\n")
            return p.error is None, False
        if gate == "req":
            p = HTTPRequestParser(Adjustments())
            p.received(x + b"\r\n\r\n")
            return (p.error is None and p.completed and not p.empty), False
        buf = OverflowableBuffer(10000)
        r = ChunkedReceiver(buf)
        if gate == "hex":
            r.received(x + b"\r\n")
            ok = r.error is None and x != b"" and not r.control_line
            return ok, False
        if gate == "ext":
            r.received(b"1" + x + b"\r\n")
            return r.error is None and not r.control_line, False
    except Exception:
        return False, True
    raise ValueError(gate)


def in_domain(gate, x):
    if gate in ("digit", "hdr"):
        if b"\r" in x or b"\n" in x:
            return False
        if gate == "digit" and (x[:1] in (b" ", b"\t") or x[-1:] in (b" ", b"\t")):
            return False   # surrounding OWS belongs to the field line, not to the value
        if gate == "hdr" and x[:1] in (b" ", b"\t", b""):
            return False   # a line starting with SP/HTAB is an obs-fold continuation, the empty line ends the head
        return True
    if b"\r\n" in x:
        return False
    if gate == "hex":
        return b";" not in x
    if gate == "ext":
        return x[:1] == b";"
    if gate == "req":
        return True
    return True


def run(chk, replay=None):
    G = gates()
    rng = random.Random(chk.seed)
    maxlen = 5 if chk.thorough else 4
    for gate, g in G.items():
        impl, dom = g["impl"], g["domain"]
        # ---- product automaton, all lengths --------------------------------
        wd = tlc.scratch("lex")
        try:
            mod = "MC_Lex_%s" % gate
            with open(os.path.join(wd, mod + ".tla"), "w") as f:
                byts = list(range(256)) if chk.thorough else joint_reps(impl, dom)
                f.write("---- MODULE %s ----\nEXTENDS Lex\nMBytes == {%s}\n%s%s====\n" % (
                    mod, ", ".join(str(b) for b in byts), rx.tla_tables("MI", impl), rx.tla_tables("MD", dom)))
            cfg = ('SPECIFICATION Spec\nCONSTANTS Gate = "%s"\nBytes <- MBytes\nIStart <- MIStart\nIAcc <- MIAcc\nIClassOf <- MIClassOf\nIDelta <- MIDelta\n'
                   'DStart <- MDStart\nDAcc <- MDAcc\nDClassOf <- MDClassOf\nDDelta <- MDDelta\nVIEW View\n'
                   'INVARIANT NothingOutsideGrammarAccepted\nINVARIANT EverythingInGrammarAccepted\n' % gate)
            r = tlc.run(mod, cfg, workdir=wd, workers=4, deadlock=False, extra=["-continue"])
        finally:
            shutil.rmtree(wd, ignore_errors=True)
        chk.add_tlc("MC:Lex product %s" % gate, r, "language inclusion both ways, all lengths")
        chk.extra.setdefault("product_states", {})[gate] = r.distinct
        if r.violated:
            for inv, s in counterexamples(r):
                acc, raised = real_verdict(gate, s)
                # report only what the real call site really does
                wrongly_acc = inv == "NothingOutsideGrammarAccepted" and acc
                wrongly_ref = inv == "EverythingInGrammarAccepted" and not acc
                if wrongly_acc or wrongly_ref:
                    chk.violation({"kind": "language", "gate": gate, "dir": "accepts" if wrongly_acc else "refuses", "witness": witness_class(gate, s)},
                                  "gate %s: the call site %s %r, the grammar says otherwise (shortest distinguishing string from the product automaton)" % (
                                      gate, "ACCEPTS" if wrongly_acc else "REFUSES", s), replay={"gate": gate, "bytes": list(s)})
                else:
                    chk.note_drift("gate %s: product counterexample %r is not reproduced by the call site (extractor/call-site model out of date)" % (gate, s))
        # ---- call-site sweep: all strings up to maxlen over class representatives
        cls, _ = rx.classes(rx.product(impl, dom, lambda x, y: x))
        reps = sorted({c[0] for c in cls} | {c[-1] for c in cls} | {9, 10, 11, 13, 32, 0, 127, 128, 48, 65, 97, 58, 59, 61, 34, 92, 43, 45, 95, 120})
        reps = [b for b in reps if b < 256]
        strings = set()
        base = {"digit": [b"12"], "hex": [b"1f"], "ext": [b";a=b", b';a="b"'], "hdr": [b"X-A: b c"], "req": [b"GET / HTTP/1.1", b"GET /"]}[gate]
        small = [48, 57, 65, 97, 102, 103, 32, 9, 10, 11, 13, 59, 61, 34, 92, 58, 43, 45, 95, 0, 127, 128, 47, 72, 46, 33]
        for L in range(0, maxlen + 1):
            alph = reps if L <= 2 else small if L <= 3 else small[:14]
            for t in itertools.product(alph, repeat=L):
                strings.add(bytes(t))
        # single-byte insertions / replacements at every position of valid sentences (near-misses)
        for b0 in base:
            for i in range(len(b0) + 1):
                for b in range(256):
                    strings.add(b0[:i] + bytes([b]) + b0[i:])
                    if i < len(b0):
                        strings.add(b0[:i] + bytes([b]) + b0[i + 1:])
        # long members / near-members (pumping)
        for n in (10, 100, 1000, 4000):
            for b0 in base:
                strings.add(b0 * (n // 8) if gate in ("ext",) else b0[:-1] + b0[-1:] * n)
        strings = [s for s in strings if in_domain(gate, s)]
        traces = []
        for i, s in enumerate(sorted(strings)):
            acc, raised = real_verdict(gate, s)
            model = rx.run(impl, s)
            if gate == "req" and any(b >= 128 for b in s):
                model = acc   # obs-text targets are also judged by URI splitting after the gate: not comparable
            traces.append({"id": i, "cfg": {}, "ev": [{"b": list(s), "acc": acc, "raised": raised, "model": model}]})
        consts = 'CONSTANTS Gate = "%s"\n' % gate
        rej, drift = tv.validate(chk, "Trace_Lex", traces, consts, name="TV:Lex call site %s" % gate, workers=4, java_opts=("-Xss512m",))
        for t in traces:
            chk.count(1, (gate, t["id"]) if len(t["ev"][0]["b"]) >= 2 else None)
        for i, (pos, clauses) in rej.items():
            s = bytes(traces[int(i)]["ev"][0]["b"])
            e = traces[int(i)]["ev"][0]
            chk.violation({"kind": "callsite", "gate": gate, "dir": "accepts" if e["acc"] else ("raises" if e["raised"] else "refuses"), "witness": witness_class(gate, s)},
                          "gate %s: real call site verdict for %r is %s: %s" % (gate, s[:60] + (b"..." if len(s) > 60 else b""), "accept" if e["acc"] else "refuse", clauses),
                          replay={"gate": gate, "bytes": list(s)})
        for i, (pos, clauses) in list(drift.items())[:3]:
            chk.note_drift("gate %s: call site and extracted automaton disagree on %r" % (gate, bytes(traces[int(i)]["ev"][0]["b"])[:40]))
        chk.sample({"gate": gate, "impl_dfa_states": impl["n"], "byte_classes": len(cls), "example_string": list(sorted(strings)[len(strings) // 2][:20])})
    chk.exhaustive = True
    # the field-line gate is applied to whole lines AFTER continuation lines were joined: what a continuation line
    # carries reaches no gate of its own.  Near-misses of obs-fold through the real parser, judged by Framing.tla
    from checks import framing_common as fc
    from checks import framing_gen as fg
    follow = fg.msg(target=b"/next", headers=[fg.HOST])
    fold = [(n, m) for n, m in fg.framing_variants() if "fold" in n]
    items = [(n, m + follow, {"maxh": 262144, "maxb": 1073741824}, "sampled", chk.seed + i) for i, (n, m) in enumerate(fold)]
    fc.execute(chk, "C10", fc.C01, items, label="fold")
    chk.rule = ("per gate: (1) TLC exhausts the product of the implementation automaton (extracted from the compiled pattern + call-site processing), the call-site domain automaton and the grammar automaton over all 256 bytes - language inclusion both ways for every length; "
                "(2) every byte string up to length %d over the class representatives, all single-byte insertions/replacements in valid sentences and pumped sentences are run through the REAL call site and judged by TLC against the grammar; non-trivial = strings of length >= 2" % maxlen)
    chk.assumptions += ["`$` is modelled as end-of-input or before one final LF; the extractor is validated on every run against the real call site (disagreement = drift)",
                        "numeric conversion after the gate (int()) is sampled on pumped strings only: Python's digit limit is not a regular property"]


def joint_reps(impl, dom):
    """one byte per class of the joint partition (implementation DFA, domain DFA, every
    character predicate / literal the grammar automata of LexOps.tla use)"""
    SPECIAL = {9, 10, 11, 12, 13, 32, 33, 34, 35, 46, 47, 58, 59, 61, 72, 80, 84, 92, 95, 127}

    def gsig(b):
        return (48 <= b <= 57, 65 <= b <= 70, 97 <= b <= 102, 65 <= b <= 90, 97 <= b <= 122,
                b in b"!#$%&'*+-.^_`|~", 33 <= b <= 126, b >= 128, b if b in SPECIAL else -1,
                35 <= b <= 91, 93 <= b <= 126)
    seen = {}
    for b in range(256):
        key = (tuple(impl["delta"][(q, b)] for q in range(impl["n"])), tuple(dom["delta"][(q, b)] for q in range(dom["n"])), gsig(b))
        seen.setdefault(key, b)
    return sorted(seen.values())


def counterexamples(r):
    """-> [(invariant, bytes)] from TLC output (with -continue there may be several)"""
    out = []
    cur_inv = None
    cur = []
    for ln in r.out.splitlines():
        if ln.startswith("Error: Invariant "):
            if cur_inv and cur:
                out.append((cur_inv, bytes(cur)))
            cur_inv = ln.split()[2]
            cur = []
        elif ln.strip().startswith("/\\ last = "):
            v = int(ln.split("=")[1])
            if v >= 0:
                cur.append(v)
        elif ln.startswith("State 1:"):
            cur = []
    if cur_inv and cur:
        out.append((cur_inv, bytes(cur)))
    seen, uniq = set(), []
    for inv, s in out:
        if (inv, s) not in seen:
            seen.add((inv, s))
            uniq.append((inv, s))
    return uniq[:20]


def witness_class(gate, s):
    """coarse description of a distinguishing string, used to match known findings"""
    def cls(b):
        if b in (10,):
            return "LF"
        if b in (13,):
            return "CR"
        if b in (9, 11, 12):
            return "WS"
        if b < 32 or b == 127:
            return "CTL"
        if b >= 128:
            return "OBS"
        if 97 <= b <= 122:
            return "lower"
        return "v"
    kinds = {cls(b) for b in s} - {"v"}
    if s[:1] == b" " or s[-1:] == b" " or b"  " in s or (gate != "req" and b" " in s):
        kinds.add("SP")
    kinds = sorted(kinds)
    return "+".join(kinds) or "plain"
