"""C07 - the WSGI environ is the exact PEP 3333 image of the request.

Canonically well-formed requests (token header names incl. dash/underscore
aliases and names that map onto CGI variables, repeated fields, obs-text and
interior-whitespace values, target forms, percent escapes, empty / large /
chunked bodies) x url_prefix x peer, run on the real server; for every
application call TLC computes the expected image from the reference parse of
the same bytes (Framing.tla + Trace_Environ.tla) and compares it key by key."""
import itertools
import random

from checks import framing_gen as fg
from wv import h_framing, tv
from wv.par import pmap

LEVEL = "model_checking"
CLAUSES = ["P07_each_field_once_under_its_CGI_name_joined_in_order", "P07_wsgi_input_is_the_framed_body", "P07_content_length_equals_body_length",
           "P07_chunked_body_gets_decoded_length", "P07_request_method", "P07_server_protocol", "P07_script_name_is_url_prefix",
           "P07_path_info_is_decoded_path_after_prefix", "P07_query_string_as_sent", "P07_all_values_are_latin1_native_strings",
           "P07_client_fields_never_replace_server_variables"]

NAMES = [b"X-Foo", b"x-foo", b"X_Foo", b"X-FOO", b"Content-Type", b"Content_Type", b"content-type", b"Remote-Addr", b"Server-Name", b"Script-Name",
         b"Path-Info", b"Server-Port", b"Request-Method", b"Query-String", b"Wsgi.Input", b"Accept", b"Cookie", b"X-a.b~c!", b"Http-Host", b"Url-Scheme",
         # every letter in both cases, digits and the other token characters
         b"Authorization", b"X-Zone", b"x-zone", b"X-ZONE", b"Abcdefghijklm-Nopqrstuvwxyz", b"ABCDEFGHIJKLM-nopqrstuvwxyz", b"X-0123456789", b"X-#$%&'*+.^`|"]
VALUES = [b"v", b"two words", b"a,b", b"caf\xe9", b"a\tb", b"", b"  padded  ", b"x" * 40, b"1", b"\xff\xfe"]
TARGETS = [b"/", b"/a", b"/p", b"/p/", b"/p/x", b"/pq", b"/p/q/r", b"/a?x=1&y=2", b"/a?", b"/a#frag", b"/a%20b", b"/a%2Fb", b"/%41", b"/a%", b"/a%4", b"/a%zz",
           b"/a%00b", b"/caf%C3%A9", b"/a;p=1", b"/a?q=%20", b"/p?x#y", b"//dbl", b"//p/x", b"///p", b"/%2Fp/x", b"/p//x", b"/p/%2Fx", b"//p", b"http://h.example/abs?q=1", b"https://h.example/abs", b"ftp://h.example/x?y", b"HTTPS://H.example/", b"*"]


def requests(thorough, rng):
    out = []
    H = fg.HOST
    # header image: singles, pairs (incl. repeats and aliases), triples sampled
    for n in NAMES:
        for v in VALUES[:6]:
            out.append(fg.msg(headers=[H, (n, v)]))
    pairs = list(itertools.product(NAMES[:12], repeat=2))
    for (a, b) in (pairs if thorough else rng.sample(pairs, 70)):
        out.append(fg.msg(headers=[H, (a, rng.choice(VALUES)), (b, rng.choice(VALUES))]))
    for _ in range(300 if thorough else 60):
        hs = [(rng.choice(NAMES), rng.choice(VALUES)) for _ in range(rng.randint(2, 5))]
        if sum(1 for n, _ in hs if n.lower().replace(b"_", b"-") == b"content-type" and b"_" not in n) > 1:
            continue
        out.append(fg.msg(headers=[H] + hs))
    for t in TARGETS:
        out.append(fg.msg(target=t, headers=[H]))
        out.append(fg.msg(method=b"POST", target=t, headers=[H, (b"Content-Length", b"3")], body=b"abc"))
    for v in (b"HTTP/1.0", b"HTTP/1.1"):
        out.append(fg.msg(version=v, headers=[H, (b"Connection", b"keep-alive")]))
    # bodies: empty / small / above inbuf_overflow (scaled to 16) / chunked
    for n in (0, 1, 15, 16, 17, 64):
        body = bytes((65 + i % 26) for i in range(n))
        out.append(fg.msg(method=b"POST", headers=[H, (b"Content-Length", str(n).encode())], body=body))
        out.append(fg.msg(method=b"POST", headers=[H, (b"Content-Length", b"00" + str(n).encode())], body=body))
        parts = [body[i:i + 7] for i in range(0, n, 7)]
        out.append(fg.msg(method=b"POST", headers=[H, (b"Transfer-Encoding", b"chunked"), (b"X-After", b"1")], raw_body=fg.chunked(parts, trailers=[(b"X-T", b"1")])))
        out.append(fg.msg(method=b"PUT", headers=[H, (b"Transfer-Encoding", b"Chunked"), (b"Content-Type", b"text/x")], raw_body=fg.chunked(parts, ext=b";e=1")))
    # bodies that outgrow the in-memory stage of the input buffer (8 KiB) and move to a file on the way
    for n in (8300, 20001):
        body = bytes((65 + i % 26) for i in range(n))
        out.append(fg.msg(method=b"POST", headers=[H, (b"Content-Length", str(n).encode())], body=body))
        out.append(fg.msg(method=b"POST", headers=[H, (b"Transfer-Encoding", b"chunked")], raw_body=fg.chunked([body[i:i + 4099] for i in range(0, n, 4099)])))
    # Content-Length next to Transfer-Encoding: chunked (RFC 9112 lets it be processed): the environ carries the decoded length
    for clv, parts in ((b"3", [b"hello ", b"world"]), (b"4000", [b"abc"]), (b"10", []), (b"0", [b"xy"])):
        out.append(fg.msg(method=b"POST", headers=[H, (b"Content-Length", clv), (b"Transfer-Encoding", b"chunked")], raw_body=fg.chunked(parts)))
        out.append(fg.msg(method=b"POST", headers=[H, (b"Transfer-Encoding", b"chunked"), (b"Content-Length", clv)], raw_body=fg.chunked(parts)))
    # pipelined: each request only carries its own fields
    out.append(fg.msg(headers=[H, (b"X-One", b"1")]) + fg.msg(headers=[H, (b"X-Two", b"2")]) + fg.msg(method=b"POST", headers=[H, (b"Content-Length", b"2")], body=b"zz"))
    return out


def run_batch(args):
    items, prefix, unix = args
    from wv.core import repo_on_path
    repo_on_path()
    adj = {"inbuf_overflow": 16}
    if prefix:
        adj["url_prefix"] = prefix
    fs = h_framing.FramingServer(**adj)
    peer = ("localhost", None) if unix else ("192.0.2.55", 41000)
    fs.server_vars = {"SERVER_NAME": fs.srv.server.server_name, "SERVER_PORT": str(fs.srv.server.effective_port), "REMOTE_ADDR": peer[0],
                      "REMOTE_HOST": peer[0], "REMOTE_PORT": str(peer[1]), "SCRIPT_NAME": prefix or "", "wsgi.url_scheme": "http",
                      "SERVER_SOFTWARE": "waitress"}
    out = []
    fs2 = None
    try:
        for i, s in items:
            variants = []
            servers = [fs]
            if len(s) > 8192:
                # a long body is also received with an overflow threshold between the in-memory stages and its length:
                # bytes -> BytesIO -> temporary file, the last step with content already in the buffer
                if fs2 is None:
                    fs2 = h_framing.FramingServer(**dict(adj, inbuf_overflow=12000))
                    fs2.server_vars = fs.server_vars
                servers.append(fs2)
            for f in servers:
                for cuts in ((), tuple(range(1, len(s))), (len(s) // 2,), tuple(range(1000, len(s), 1000))):
                    o = f.run(s, cuts, peer=peer)
                    ev = {"obs": o["obs"], "closed": o["closed"], "raised": o["raised"]}
                    if ev not in variants:
                        variants.append(ev)
            out.append((i, s, variants))
    finally:
        fs.close()
        if fs2 is not None:
            fs2.close()
    return out


def run(chk, replay=None):
    rng = random.Random(chk.seed)
    reqs = requests(chk.thorough, rng)
    jobs = []
    for prefix in ("", "/p", "/p/q"):
        for unix in (False, True):
            if unix and prefix == "/p/q":
                continue
            sub = reqs if (prefix == "" and not unix) or chk.thorough else [r for j, r in enumerate(reqs) if j % 3 == 0 or b" /p" in r[:12]]
            items = list(enumerate(sub))
            for k in range(0, len(items), 60):
                jobs.append((items[k:k + 60], prefix, unix))
    results = pmap(run_batch, jobs)
    traces, meta = [], {}
    for job, res in zip(jobs, results):
        prefix = job[1]
        for i, s, variants in res:
            t = len(traces)
            traces.append({"id": t, "cfg": {"s": list(s), "maxh": 262144, "maxb": 1073741824, "prefix": [ord(c) for c in prefix]},
                           "ev": [{"obs": v["obs"]} for v in variants]})
            meta[str(t)] = (s, prefix, job[2], variants)
    consts = "CONSTANTS Focus = {%s}\n" % ", ".join('"%s"' % c for c in CLAUSES)
    rej, drift = tv.validate(chk, "Trace_Environ", traces, consts, name="TV:Environ", workers=12, java_opts=("-Xss256m",))
    for t in traces:
        s = meta[str(t["id"])][0]
        chk.count(1, ("r", t["id"]) if s.count(b"\r\n") > 3 or b"%" in s[:40] or b"chunked" in s.lower() else None)
    for i, (pos, clauses) in rej.items():
        s, prefix, unix, variants = meta[i]
        v = variants[pos - 1] if pos <= len(variants) else {}
        envs = [{"".join(map(chr, k)): "".join(map(chr, val)) for k, val in e["env"]} | {"PATH_INFO": "".join(map(chr, e["path"])), "QUERY_STRING": "".join(map(chr, e["query"])), "SCRIPT_NAME": "".join(map(chr, e["script"]))}
                for e in v.get("obs", []) if e["k"] == "app"]
        chk.violation({"kind": "environ", "clauses": sorted(clauses), "prefix": prefix},
                      "request %r url_prefix=%r unix_peer=%s -> environ %s ; violates %s" % (s[:300], prefix, unix, envs, sorted(clauses)),
                      replay={"stream": list(s), "prefix": prefix})
    # one-piece vs byte-at-a-time vs halves must give the same environ
    for t in traces:
        if len(t["ev"]) > 1:
            s, prefix, unix, variants = meta[str(t["id"])]
            chk.violation({"kind": "environ", "clauses": ["P02_environ_independent_of_segmentation"], "prefix": prefix}, "request %r gives different environs under different segmentations" % s[:200])
    s0 = meta["3"]
    chk.sample({"request": s0[0].decode("latin-1"), "url_prefix": s0[1]})
    chk.exhaustive = False
    chk.rule = ("requests = header-name vocabulary (dash/underscore aliases, names that map onto CGI variables, case variants) x value vocabulary (obs-text, interior whitespace, empty, padded) as singles, pairs and seeded longer lists, "
                "every target form incl. valid and invalid percent escapes, bodies empty/small/above the spill threshold/chunked with trailers; x url_prefix in {'', '/p', '/p/q'} x TCP and unix peers; each delivered in one piece, byte-at-a-time and in halves; "
                "non-trivial = request with several header fields, an escape, or a chunked body")
    chk.assumptions += ["PATH_INFO for an invalid percent escape, for targets starting with '//', and for non-origin-form targets is left free (the statement lists them as inputs, not their image) but must not depend on segmentation",
                        "'latin-1 native string' is checked by the harness (isinstance str) - TLA+ has no notion of Python types"]
