"""Shared by the connection-level checks (C04 C05 C11 C12 C13 C19): scenario
construction, exploration of the real server under the deterministic
scheduler, validation of the recorded traces by TLC (spec/Pipeline.tla)."""
import json

from wv import h_channel, tv
from wv.par import pmap

CLAUSES = {
    "C06": ["P06_refused_request_never_reaches_application", "P11_no_response_after_a_closing_response", "P11_nothing_executed_after_a_closing_response",
            "P11_closing_response_is_followed_by_close", "P04_at_most_one_response_per_request"],
    "C09": ["P09_every_started_iterable_is_closed", "P09_iterable_closed_exactly_once", "P12_paused_producer_released", "P13_workers_alive", "P13_no_thread_dies",
            "P11_nothing_executed_after_an_exchange_that_must_close", "P11_no_response_after_a_closing_response", "P05_dead_connection_closed", "P05_no_livelock",
            "P13_torn_down_exactly_once", "P13_connection_with_a_send_error_is_torn_down"],
    "C03": ["P04_wire_is_a_sequence_of_well_formed_responses", "P04_at_most_one_response_per_request", "P04_only_the_last_response_may_be_cut",
            "P04_response_body_intact", "P05_every_complete_request_answered", "P05_no_livelock",
            "P11_no_response_after_a_closing_response", "P11_closing_response_is_followed_by_close", "P11_nothing_executed_after_a_closing_response"],
    "C04": ["P04_wire_is_a_sequence_of_well_formed_responses", "P04_at_most_one_response_per_request",
            "P04_responses_in_request_order", "P04_response_body_intact", "P04_every_finished_request_has_its_response",
            "P04_only_the_last_response_may_be_cut", "P04_request_of_unknown_connection",
            "P04_executed_in_arrival_order_exactly_once", "P04_one_request_at_a_time",
            # "each exactly once" is also "at least once": at rest, with a client that reads, nothing is left unserved
            "P05_every_complete_request_answered", "P05_no_unserviced_request_at_quiescence", "P05_no_livelock",
            "P19_at_most_one_interim_per_request",         # no byte duplicated: also not the interim response
            "P19_interim_only_for_expecting_http11_request"],   # ... and it stands in its own request's place, not among the responses before it
    "C05": ["P05_no_livelock", "P05_no_undelivered_output_at_quiescence", "P05_no_unserviced_request_at_quiescence",
            "P05_close_decision_carried_out", "P05_input_not_left_unread", "P05_every_complete_request_answered",
            "P05_dead_connection_closed", "P05_no_producer_waits_at_quiescence",
            "P12_paused_producer_released"],        # (also when the client has stopped reading: a closed connection has nothing to wait for)
    "C11": ["P11_nothing_executed_after_a_closing_response", "P11_no_response_after_a_closing_response",
            "P11_closing_response_is_followed_by_close", "P11_no_execution_after_close_decision",
            "P11_nothing_executed_after_an_exchange_that_must_close"],
    "C12": ["P12_pending_output_bounded_by_watermark_plus_one_write", "P12_paused_producer_released",
            "P04_wire_is_a_sequence_of_well_formed_responses", "P04_response_body_intact", "P04_responses_in_request_order",
            # the backlog of a draining client empties: a stuck byte count is output lost or invented by the buffers
            "P05_no_livelock", "P05_no_undelivered_output_at_quiescence", "P05_every_complete_request_answered", "P05_no_unserviced_request_at_quiescence"],
    "C13": ["P13_torn_down_exactly_once", "P13_buffers_released", "P13_open_connection_stays_polled",
            "P13_other_connections_undisturbed", "P13_listener_and_trigger_survive", "P13_only_the_io_thread_tears_down",
            "P13_no_thread_dies", "P13_io_loop_alive", "P13_workers_alive", "P13_connection_with_a_send_error_is_torn_down",
            # a worker left waiting on a connection that is gone is lost to the pool just as a dead one
            "P12_paused_producer_released",
            # "its buffers and descriptors are released": a file handed to wsgi.file_wrapper is closed
            "P09_every_started_iterable_is_closed"],
    "C19": ["P19_at_most_one_interim_per_request", "P19_interim_only_for_expecting_http11_request",
            "P19_waiting_client_is_never_left_waiting", "P19_request_carries_only_its_own_fields", "P19_request_body_intact",
            "P04_executed_in_arrival_order_exactly_once", "P04_responses_in_request_order",
            "P04_wire_is_a_sequence_of_well_formed_responses", "P05_every_complete_request_answered"],
}

CLOSING_KINDS = {"close", "http10", "bad", "toolarge", "garbage", "te10", "te_cl", "te_cl_empty"}
REFUSED_KINDS = {"bad", "toolarge", "garbage"}


def mk(reqs, *, lookahead=0, workers=1, room=None, split="one", apps=None, adj=None, use_poll=False,
       drains=True, extra_client=(), name="", faults=None, waits=(), second=None, sndbuf=65536, accept_faults=(),
       read_before_await=False, body_in_two=False, part_with_head=False):
    """Build a scenario.  reqs: list of dict(k, kind[, blen]).  split: how the client
    delivers the bytes: one | each | headbody | bytes2 (two arbitrary halves)."""
    apps = apps or {}
    a = {"channel_request_lookahead": lookahead}
    a.update(adj or {})
    client = [["connect"]]
    parts = [h_channel.request_bytes(r) for r in reqs]
    if split == "one":
        client.append(["send", b"".join(h + b for h, b in parts)])
    elif split == "each":
        for h, b in parts:
            client.append(["send", h + b])
    elif split == "headbody":
        for r, (h, b) in zip(reqs, parts):
            client.append(["send", h])
            if r["k"] in waits and read_before_await:
                client.append(["readall"])
            if r["k"] in waits:
                client.append(["await100", sum(1 for w in waits if w <= r["k"])])
            if b and body_in_two and len(b) > 1:
                client.append(["send", b[:1]])
                client.append(["send", b[1:]])
            elif b:
                client.append(["send", b])
    elif split == "bodyhead":
        # the body of each request travels with the head of the next one (a client that waits for the interim response
        # of an expecting request, then sends the body and at once the next head)
        pending = b""
        for r, (h, b) in zip(reqs, parts):
            client.append(["send", pending + h])
            if r["k"] in waits:
                if read_before_await:
                    client.append(["readall"])
                client.append(["await100", sum(1 for w in waits if w <= r["k"])])
            pending = b
        if pending:
            client.append(["send", pending])
    elif split == "joinheads":
        # everything up to and including the head of the first waiting request arrives in one read
        buf = b""
        for r, (h, b) in zip(reqs, parts):
            if r["k"] in waits:
                # (part_with_head: the first byte of the body travels with the head - the body has begun but has not
                # fully arrived when the request's turn comes)
                cut = 1 if part_with_head and len(b) > 1 else 0
                client.append(["send", buf + h + b[:cut]])
                buf = b""
                if read_before_await:
                    client.append(["readall_after_block", 1])
                client.append(["await100", sum(1 for w in waits if w <= r["k"])])
                if b[cut:]:
                    client.append(["send", b[cut:]])
            elif r.get("kind") == "expect" and body_in_two:
                # the head of an expecting request with what stands before it, then its body in two pieces - the
                # client does not wait for the interim response
                client.append(["send", buf + h])
                buf = b""
                client.append(["send", b[:1]])
                client.append(["send", b[1:]])
            else:
                buf += h + b
        if buf:
            client.append(["send", buf])
    elif split == "cutfollower":
        # the first request and the beginning of the second in one read, the rest of the second later
        first = parts[0][0] + parts[0][1]
        rest = b"".join(h + b for h, b in parts[1:])
        client.append(["send", first + rest[:12]])
        client.append(["send", rest[12:]])
    elif split == "half":
        data = b"".join(h + b for h, b in parts)
        client.append(["send", data[: len(data) // 2]])
        client.append(["send", data[len(data) // 2:]])
    client += list(extra_client)
    conn = {"requests": reqs, "client": client, "room": room, "sndbuf": sndbuf}
    if faults:
        conn["faults"] = faults
    conns = [conn]
    if second is not None:
        conns.append(second)
    scn = {"name": name, "adj": a, "workers": workers, "use_poll": use_poll, "conns": conns,
           "apps": {str(k): v for k, v in apps.items()}, "drains": drains, "accept_faults": list(accept_faults)}
    return scn


def plain_conn(k0=1, n=1):
    reqs = [{"k": k0 + i, "kind": "plain"} for i in range(n)]
    data = b"".join(b"".join(h_channel.request_bytes(r)) for r in reqs)
    return {"requests": reqs, "client": [["connect"], ["send", data]], "room": None}


def cfg_of(scn):
    """What the TLA+ monitor needs to know about the scenario."""
    conns = []
    apps = scn.get("apps", {})
    for c in scn["conns"]:
        reqs = []
        ncomplete = 0
        closed = False
        for r in c.get("requests", []):
            kind = r.get("kind", "plain")
            spec = apps.get(str(r["k"]), {})
            chunks = [c for c in spec.get("chunks", [3]) if c not in ("sync", "peer")]
            total = sum(chunks)
            cl = spec.get("cl", "exact")
            rlen = total
            if kind == "head" or spec.get("status", "200")[:3] in ("204", "304"):
                rlen = 0
            elif cl == "larger" or spec.get("raise") or spec.get("raise_at") is not None:
                rlen = -1
            elif cl == "smaller":
                rlen = max(total - 1, 0)
            body = h_channel.request_bytes(r)[1]
            blen = r.get("blen", 3) if kind in ("body", "chunked", "expect", "expect10", "te_cl", "te_cl_empty", "expect_chunked") else 0
            mustclose = bool(kind in CLOSING_KINDS or cl == "larger" or spec.get("raise") or spec.get("raise_at") is not None)
            reqs.append({"v11": kind not in ("http10", "http10_ka", "expect10", "te10"), "expect": kind in ("expect", "expect_nobody", "expect10", "expect_chunked"),
                         "refuse": kind in REFUSED_KINDS, "rlen": rlen, "blen": blen, "mark": chr(64 + r["k"]), "mustclose": mustclose})
            if kind == "partial":
                closed = True
            if not closed:
                ncomplete += 1
                if kind in CLOSING_KINDS or cl == "larger" or spec.get("raise") or spec.get("raise_at") is not None or (cl == "none" and False):
                    closed = True
        conns.append({"reqs": reqs, "ncomplete": ncomplete, "faulty": bool(c.get("faults")) or bool(c.get("faulty"))})
    return {"conns": conns, "hwm": scn["adj"].get("outbuf_high_watermark", 16777216), "infinite": bool(scn.get("drains", True))}


def explore_and_validate(chk, pid, scns, n_pct, dfs_limit, bound=2, label=""):
    jobs = [(s, chk.seed * 977 + i, n_pct, dfs_limit, bound) for i, s in enumerate(scns)]
    results = pmap(h_channel.explore_scenario, jobs)
    return judge_results(chk, pid, results, label)


def judge_results(chk, pid, results, label=""):
    """results: what h_channel.explore_scenario / explore_around return; TLC judges the observable traces"""
    traces, meta = [], {}
    runs = 0
    import os
    for res in results:
        runs += res["runs"]
        if os.environ.get("WV_DEBUG"):
            print("  [%s] runs=%d dfs=%d exhausted=%s wall=%.1fs maxsteps=%d distinct=%d" % (res["scn"].get("name"), res["runs"], res["dfs"], res["dfs_exhausted"], res["wall"], res["maxsteps"], len(res["traces"])))
        cfg = cfg_of(res["scn"])
        for choices, evs in res["traces"]:
            t = len(traces)
            traces.append({"id": t, "cfg": cfg, "ev": evs})
            meta[str(t)] = (res["scn"], choices)
    chk.extra["schedules_executed"] = chk.extra.get("schedules_executed", 0) + runs
    focus = "{" + ", ".join('"%s"' % c for c in CLAUSES[pid]) + "}"
    rej, drift = tv.validate(chk, "Pipeline", traces, "CONSTANTS Focus = %s\n" % focus, name="TV:Pipeline %s %s" % (pid, label), workers=8)
    for t in traces:
        end = t["ev"][-1]
        nontriv = len([e for e in t["ev"] if e["k"] == "app_start"]) >= 2 or any(e["k"] in ("flag", "torn") for e in t["ev"])
        chk.count(1, (label, t["id"]) if nontriv else None)
    for i, (pos, clauses) in rej.items():
        scn, choices = meta[i]
        ev = traces[int(i)]["ev"]
        e = ev[pos - 1] if pos <= len(ev) else {}
        brief = {k: v for k, v in e.items() if k != "conns"}
        if e.get("k") == "end":
            brief["conns"] = [{k: v for k, v in c.items() if k in ("c", "resp", "closed", "total", "nreq", "will_close", "cwf", "waiting", "garbage", "wire_error", "maxpending", "maxwrite", "client_done", "nclose", "in_map")} for c in e["conns"]]
        sig = {"kind": "schedule", "clauses": sorted(clauses), "scenario": scn.get("name", "")}
        sig.update(classify(scn, ev, clauses, pos))
        chk.violation(sig, "scenario %s: event %d violates %s: %s" % (scn.get("name") or json.dumps(scn)[:200], pos, sorted(clauses), json.dumps(brief, default=str)[:900]),
                      replay={"scenario": _jsonable(scn), "schedule": choices})
    if traces and len(chk.samples) < 3:
        scn, choices = meta["0"]
        chk.sample({"scenario": scn.get("name"), "schedule_prefix": choices[:30],
                    "events": [{k: v for k, v in e.items() if k != "conns"} for e in traces[0]["ev"][:8]]})
    return traces, rej


def classify(scn, ev, clauses, pos=0):
    """Call-site facts used to match known findings (never to suppress new ones)."""
    out = {}
    # K-C11-io-decision-races-chain: the only close decision before the offending application start was taken by the
    # I/O thread (a send error in its own flush), the teardown had not begun, and no worker had decided anything
    bad = ev[pos - 1] if 0 < pos <= len(ev) else {}
    before = [e for e in ev[:max(pos - 1, 0)] if e.get("c") == bad.get("c")]
    dec = [e for e in before if (e["k"] == "flag") or (e["k"] == "fault" and e.get("hard"))]
    # ("the teardown had not begun": handle_close had not yet left its critical section, in which `connected` is cleared -
    # recorded for single-connection scenarios)
    single = len(scn.get("conns", [])) == 1
    out["io_decision_races_chain"] = bool(sorted(clauses) == ["P11_no_execution_after_close_decision"] and bad.get("k") == "app_start" and dec
                                          and all(e.get("by") == "io" for e in dec) and any(e["k"] == "fault" for e in dec)
                                          and ((single and not any(e["k"] == "closing_released" for e in ev[:max(pos - 1, 0)]))
                                               or (not single and not any(e["k"] == "closing" for e in before))))
    kinds = [r.get("kind", "plain") for c in scn["conns"] for r in c.get("requests", [])]
    out["has_expect"] = any(k.startswith("expect") for k in kinds)
    out["expect_nobody"] = "expect_nobody" in kinds
    a = scn.get("adj", {})
    out["send_bytes_gt_hwm"] = a.get("send_bytes", 1) > a.get("outbuf_high_watermark", 16777216)
    out["torn_by_worker"] = any(e["k"] == "torn" and str(e.get("by", "")).startswith("w") for e in ev)
    out["send_fault"] = any("send" in (c.get("faults") or {}) for c in scn["conns"])
    # K-C12-wait-after-teardown: a worker's flush raised (will_close set by a worker) after handle_close had already left
    # its critical section, and that worker is the producer still waiting at the end
    rel = [i for i, e in enumerate(ev) if e["k"] == "closing_released"]
    late = [i for i, e in enumerate(ev) if e["k"] == "flag" and e.get("attr") == "will_close" and str(e.get("by", "")).startswith("w")]
    out["flush_exception_after_teardown"] = bool(rel and late and min(rel) < max(late) and len(scn.get("conns", [])) == 1
                                                 and set(clauses) <= {"P12_paused_producer_released", "P05_no_producer_waits_at_quiescence", "P09_every_started_iterable_is_closed",
                                                                      "P05_every_complete_request_answered", "P05_no_unserviced_request_at_quiescence"}
                                                 and "P12_paused_producer_released" in clauses)
    return out


def _jsonable(o):
    if isinstance(o, bytes):
        return o.hex()
    if isinstance(o, dict):
        return {k: _jsonable(v) for k, v in o.items()}
    if isinstance(o, (list, tuple)):
        return [_jsonable(x) for x in o]
    return o
