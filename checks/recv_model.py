"""spec/ReceiverOps.tla / Receiver.tla: the incremental chunked decoder
(waitress.receiver.ChunkedReceiver) transcribed into TLA+.

(1) TLC feeds every input of a corpus (chunked bodies of the C01 corpus, their
    malformed variants, single-byte mutations, each followed by the bytes of a
    next message) to the transcription under EVERY segmentation into reads and
    checks that the outcome is that of the uncut input (C02) and the one the
    grammar of Framing.tla gives (C01).
(2) The transcription is bound to the code: the real ChunkedReceiver is fed the
    same inputs under several segmentations and after every read its attributes
    (chunk_remainder, validate_chunk_end, control_line, chunk_end,
    all_chunks_received, trailer, completed, error, decoded body) and the
    returned count must be the model's (Trace_Receiver.tla)."""
import os
import random
import shutil

from checks import framing_gen as fg
from wv import tlc, tv
from wv.core import MachineryFailure
from wv.par import pmap

FOLLOW = b"GET /n HTTP/1.1\r\n\r\n"


def corpus(thorough, rng):
    bodies = []
    bodies.append(fg.chunked([b"abc", b"de"]))
    bodies.append(fg.chunked([b"abc"], ext=b";n=v;q=\"s t\"", last_ext=b";z"))
    bodies.append(fg.chunked([b"ab"], trailers=[(b"X-T", b"1"), (b"X-U", b"2")]))
    bodies.append(fg.chunked([]))
    bodies.append(fg.chunked([b"0123456789abcdef0"]))          # size 11 hex: two digits
    bodies.append(b"A\r\n0123456789\r\n0\r\n\r\n")
    bodies.append(b"3\r\nabc\r\n0\r\nX-T: a\r\n b\r\n\r\n")   # folded trailer line
    for name, m in fg.framing_variants():
        if name.startswith("chunk-"):
            bodies.append(m[m.index(b"\r\n\r\n") + 4:])
    out = set()
    for b in bodies:
        out.add(b)
        out.add(b + FOLLOW)
        out.add(b[:-1])
        out.add(b[: len(b) // 2])
    reps = [0, 9, 10, 13, 32, 48, 49, 59, 58, 61, 65, 97, 103, 120, 34, 0x85]
    base = [bodies[0], bodies[2], bodies[6]] if not thorough else bodies[:7]
    for b in base:
        for i in range(len(b)):
            for c in (reps if thorough else rng.sample(reps, 6)):
                out.add(b[:i] + bytes([c]) + b[i + 1:] + FOLLOW[:4])
            out.add(b[:i] + b[i + 1:] + FOLLOW[:4])
            out.add(b[:i] + b[i:i + 1] + b[i:] + FOLLOW[:4])
    return sorted(out)


def tla_seq(b):
    return "<<%s>>" % ", ".join(str(x) for x in b)


def run_real(args):
    """worker: feed inputs to the real ChunkedReceiver under the given segmentations; record after every read"""
    items = args
    from wv.core import repo_on_path
    repo_on_path()
    from waitress.receiver import ChunkedReceiver

    class Buf:
        def __init__(self):
            self.data = b""

        def append(self, s):
            self.data += bytes(s)

        def __len__(self):
            return len(self.data)
    out = []
    for tid, w, cuts in items:
        buf = Buf()
        r = ChunkedReceiver(buf)
        ev = []
        pos = 0
        bounds = list(cuts) + [len(w)]
        raised = ""
        for b in bounds:
            if b <= pos:
                continue
            piece = w[pos:b]
            try:
                n = r.received(piece)
            except Exception as e:      # the decoder must not raise (C06); reported by the caller
                raised = repr(e)[:200]
                break
            ev.append({"piece": list(piece), "consumed": n, "rem": r.chunk_remainder, "vce": bool(r.validate_chunk_end), "ctl": list(r.control_line),
                       "cend": list(r.chunk_end), "all": bool(r.all_chunks_received), "trailer": list(r.trailer), "completed": bool(r.completed),
                       "error": r.error is not None, "body": list(buf.data)})
            pos = b
            if r.completed or r.error is not None or n < len(piece):
                break
        out.append({"id": tid, "cfg": {}, "ev": ev, "raised": raised, "w": w, "cuts": list(cuts)})
    return out


def model_check(chk, pid):
    rng = random.Random(chk.seed + 17)
    inputs = corpus(chk.thorough, rng)
    # ---- (1) every segmentation, on the transcription -------------------------------------------------------
    wd = tlc.scratch("recv")
    try:
        with open(os.path.join(wd, "MC_Recv.tla"), "w") as f:
            f.write("---- MODULE MC_Recv ----\nEXTENDS Receiver\nMInputs == {\n%s}\n====\n" % ",\n".join(tla_seq(b) for b in inputs))
        cfg = ("SPECIFICATION Spec\nCONSTANTS Inputs <- MInputs\nCHECK_DEADLOCK FALSE\n"
               "INVARIANT SegmentationIndependent\nINVARIANT AgreesWithGrammar\nINVARIANT ConsumedBounded\n")
        r = tlc.run("MC_Recv", cfg, workdir=wd, workers=8, timeout=3000, java_opts=("-Xss64m",))
    finally:
        shutil.rmtree(wd, ignore_errors=True)
    chk.add_tlc("MC:Receiver all segmentations of %d inputs" % len(inputs), r, "every way of cutting each input into reads, on the transcription of ChunkedReceiver")
    if r.violated:
        w = ""
        for ln in r.trace[-1:]:
            w = ln
        chk.violation({"kind": "model", "spec": "Receiver", "invariant": r.violated},
                      "Receiver.tla (the transcription of ChunkedReceiver) violates %s; last state:\n%s" % (r.violated, "\n".join(r.trace[-1:])[:1500]))
    elif r.distinct is None or r.distinct < len(inputs):
        raise MachineryFailure("Receiver MC did not run: %s" % r.out[-1500:])
    # ---- (2) the transcription is the code ---------------------------------------------------------------------
    items = []
    for w in inputs:
        n = len(w)
        segs = [(), tuple(range(1, n))]
        for _ in range(3 if not chk.thorough else 8):
            if n > 2:
                k = rng.randint(1, min(5, n - 1))
                segs.append(tuple(sorted(rng.sample(range(1, n), k))))
        if n > 1:
            segs += [(c,) for c in (rng.sample(range(1, n), min(n - 1, 4)))]
        for cuts in segs:
            items.append((len(items), w, cuts))
    chunks = [items[i::16] for i in range(16)]
    recs = [t for part in pmap(run_real, chunks) for t in part]
    for t in recs:
        if t["raised"]:
            chk.violation({"kind": "receiver_raised"}, "ChunkedReceiver.received raised %s on %r cuts=%s" % (t["raised"], t["w"][:80], t["cuts"][:20]))
    traces = [{"id": t["id"], "cfg": {}, "ev": t["ev"]} for t in recs if t["ev"]]
    rej, _ = tv.validate(chk, "Trace_Receiver", traces, "", name="TV:Receiver %s" % pid, workers=1, java_opts=("-Xss64m",))
    byid = {str(t["id"]): t for t in recs}
    for i, (pos, clauses) in list(rej.items())[:4]:
        t = byid[i]
        chk.note_drift("ChunkedReceiver is not its transcription (ReceiverOps.tla): %s at read %d of %r cuts=%s" % (clauses, pos, t["w"][:60], t["cuts"][:12]))
    chk.extra["receiver_inputs"] = len(inputs)
    chk.extra["receiver_executions_bound"] = len(traces)
