"""C20 - configuration is validated, and CLI and keyword forms are equivalent.

spec/Adjust.tla is the single source: the documented option table, the
exclusion rules, the documented casts.  TLC enumerates every combination of
the exclusive groups / proxy options / unknown names and kinds / socket kinds
with the verdict start-up must give, and every (option, raw value) cast case;
all of them are replayed on the real Adjustments in the keyword AND the
command-line form.  TLC also compares the option table with the tables
extracted from the code, docs/arguments.rst and the runner help text."""
import json
import os
import re
import shutil
import socket

from wv import tlc
from wv.core import REPO, MachineryFailure

LEVEL = "model_checking"

TYPE = {"str": "str", "int": "int", "asbool": "bool", "aslist": "list", "asset": "set", "asoctal": "octal",
        "str_iftruthy": "str_or_none", "slash_fixed_str": "slashstr", "as_socket_list": "sockets"}


def tables():
    from waitress import runner
    from waitress.adjustments import Adjustments
    code = sorted((n, TYPE.get(getattr(c, "__name__", "?"), getattr(c, "__name__", "?"))) for n, c in Adjustments._params)
    doc = []
    lines = open(os.path.join(REPO, "docs", "arguments.rst")).read().splitlines()
    for i, ln in enumerate(lines):
        if re.fullmatch(r"[a-z][a-z_0-9]*", ln) and i + 1 < len(lines) and lines[i + 1].startswith("   "):
            doc.append(ln)
    helpn = set()
    for ln in runner.HELP.splitlines():
        m = re.match(r"^    --(\[no-\])?([a-z0-9-]+)", ln)
        if m:
            n = m.group(2).replace("-", "_")
            if n.startswith("no_") and n[3:] in dict(code):
                n = n[3:]
            if n not in ("help", "app", "call"):
                helpn.add(n)
    return code, sorted(set(doc)), sorted(helpn)


def mk_sockets(kind):
    out = []
    if kind in ("inet", "two_inet", "mixed"):
        out.append(socket.socket(socket.AF_INET, socket.SOCK_STREAM))
    if kind == "two_inet":
        out.append(socket.socket(socket.AF_INET, socket.SOCK_STREAM))
    if kind == "inet6":
        out.append(socket.socket(socket.AF_INET6, socket.SOCK_STREAM))
    if kind in ("unix", "mixed"):
        out.append(socket.socket(socket.AF_UNIX, socket.SOCK_STREAM))
    if kind == "dgram":
        out.append(socket.socket(socket.AF_INET, socket.SOCK_DGRAM))
    if kind == "seqpacket":
        out.append(socket.socket(socket.AF_UNIX, socket.SOCK_SEQPACKET))
    if kind == "raw_like":
        out.append(_RawLike(socket.AF_INET, socket.SOCK_STREAM))
    return out


class _RawLike(socket.socket):
    """a real stream socket that reports SOCK_RAW as its type (a real raw socket needs privileges)"""
    @property
    def type(self):
        return socket.SOCK_RAW


def kw_of(c):
    kw, argv, socks = {}, [], []
    p = c["present"]
    if "listen" in p:
        kw["listen"] = "127.0.0.1:8099"
        argv.append("--listen=127.0.0.1:8099")
    if "host" in p:
        kw["host"] = "127.0.0.1"
        argv.append("--host=127.0.0.1")
    if "port" in p:
        kw["port"] = "8099"
        argv.append("--port=8099")
    if "unix_socket" in p:
        kw["unix_socket"] = "/tmp/wv-c20.sock"
        argv.append("--unix-socket=/tmp/wv-c20.sock")
    if "sockets" in p:
        socks = mk_sockets(c["socks"])
        kw["sockets"] = socks
        argv = None  # not expressible on a command line
    if c["tp"] == "addr":
        kw["trusted_proxy"] = "10.0.0.1"
    elif c["tp"] == "star":
        kw["trusted_proxy"] = "*"
    elif c["tp"] == "empty":
        kw["trusted_proxy"] = ""
    elif c["tp"] == "null":
        kw["trusted_proxy"] = None
    if c["tpcount"] == "set":
        kw["trusted_proxy_count"] = "2"
    if c["tph"]:
        kw["trusted_proxy_headers"] = " ".join(sorted(c["tph"]))
    if c["unknown"]:
        kw["bogus_option"] = "1"
    if argv is not None:
        for k in ("trusted_proxy", "trusted_proxy_count", "trusted_proxy_headers", "bogus_option"):
            if k in kw and kw[k] is not None:
                argv.append("--%s=%s" % (k.replace("_", "-"), kw[k]))
            elif k in kw:
                argv = None       # None cannot be spelled on a command line
                break
    if argv is not None:
        if True:
            pass
        argv.append("json:dumps")
    return kw, argv, socks


def norm(v):
    if isinstance(v, (set, frozenset)):
        return sorted(v)
    if isinstance(v, tuple):
        return [norm(x) for x in v]
    if isinstance(v, list):
        return [norm(x) for x in v]
    if isinstance(v, bool) or v is None or isinstance(v, (int, str)):
        if isinstance(v, int) and not isinstance(v, bool):
            return int(v)
        return str(v) if isinstance(v, str) else v
    return repr(v)


def run(chk, replay=None):
    from waitress.adjustments import Adjustments
    code, doc, helpn = tables()
    wd = tlc.scratch("adj")
    try:
        mod = "MC_Adjust"
        with open(os.path.join(wd, mod + ".tla"), "w") as f:
            f.write('---- MODULE %s ----\nEXTENDS Adjust\nMCode == {%s}\nMDoc == {%s}\nMHelp == {%s}\n====\n' % (
                mod, ", ".join('<<"%s", "%s">>' % nt for nt in code), ", ".join('"%s"' % n for n in doc), ", ".join('"%s"' % n for n in helpn)))
        cfg = ("SPECIFICATION Spec\nCONSTANTS CodeParams <- MCode\nDocNames <- MDoc\nHelpNames <- MHelp\n"
               "INVARIANT TableImplemented\nINVARIANT TableDocumented\nINVARIANT TableInHelp\n")
        r = tlc.run(mod, cfg, workdir=wd, workers=4, deadlock=False, extra=["-continue"])
    finally:
        shutil.rmtree(wd, ignore_errors=True)
    chk.add_tlc("GEN:Adjust", r, "configuration space + cast table + option-table comparison")
    viol = set(re.findall(r"Error: Invariant (\w+) is violated", r.out))
    spec_names = None
    for inv in sorted(viol):
        chk.violation({"kind": "table", "invariant": inv},
                      "option tables differ (%s): code=%s doc=%s help=%s" % (inv, [n for n, _ in code], doc, helpn))
    cfgs = tlc.printed_json(r, "CFG")
    casts = tlc.printed_json(r, "CAST")
    if len(cfgs) < 100 or len(casts) < 50:
        raise MachineryFailure("TLC emitted too few cases (%d configs, %d casts)\n%s" % (len(cfgs), len(casts), r.out[-1500:]))
    # ---- exclusion rules ---------------------------------------------------
    nref = 0
    for item in cfgs:
        c, want = item["c"], bool(item["refused"])
        kw, argv, socks = kw_of(c)
        try:
            got_kw = None
            try:
                Adjustments(**kw)
                got_kw = False
            except ValueError:
                got_kw = True
            got_cli = None
            if argv is not None:
                try:
                    k2 = Adjustments.parse_args(argv)
                    for x in ("help", "call", "app"):
                        k2.pop(x, None)
                    Adjustments(**k2)
                    got_cli = False
                except Exception:
                    got_cli = True
        finally:
            for s in socks:
                s.close()
        nref += want
        chk.count(1, ("cfg", json.dumps(c, sort_keys=True)) if want else None)
        if got_kw != want:
            chk.violation({"kind": "exclusion", "form": "keyword", "want_refused": want, "groups": sorted(c["present"])},
                          "Adjustments(**%s) %s but the documented rules say it must be %s" % (
                              {k: (v if k != "sockets" else c["socks"]) for k, v in kw.items()}, "was refused" if got_kw else "was accepted", "refused" if want else "accepted"),
                          replay={"config": c})
        if got_cli is not None and got_cli != want:
            chk.violation({"kind": "exclusion", "form": "cli", "want_refused": want, "groups": sorted(c["present"])},
                          "command line %s %s but must be %s" % (argv, "was refused" if got_cli else "was accepted", "refused" if want else "accepted"),
                          replay={"config": c})
    # ---- casts, keyword and CLI form ---------------------------------------
    for item in casts:
        opt, raw, want = item["opt"], item["raw"], item["want"]
        ctx = {"trusted_proxy": "10.0.0.1"} if opt in ("trusted_proxy_count", "trusted_proxy_headers") else {}
        if opt == "ipv4":
            ctx = {"host": "::1"}   # with IPv4 disabled the default 0.0.0.0 cannot be listened on
        res = {}
        if raw not in ("--flag", "--no-flag"):
            try:
                a = Adjustments(**dict(ctx, **{opt: raw}))
                res["keyword"] = norm(getattr(a, opt))
            except Exception as e:
                res["keyword"] = "EXC " + repr(e)[:80]
        if raw == "--flag":
            argv = ["--" + opt.replace("_", "-")]
        elif raw == "--no-flag":
            argv = ["--no-" + opt.replace("_", "-")]
        else:
            argv = ["--%s=%s" % (opt.replace("_", "-"), raw)]
        is_bool = want in ("true", "false") and raw not in ("--flag", "--no-flag")
        if not is_bool:
            try:
                k2 = Adjustments.parse_args([("--%s=%s" % (k.replace("_", "-"), v)) for k, v in ctx.items()] + argv + ["json:dumps"])
                for x in ("help", "call", "app"):
                    k2.pop(x, None)
                a = Adjustments(**k2)
                res["cli"] = norm(getattr(a, opt))
            except Exception as e:
                res["cli"] = "EXC " + repr(e)[:80]
        chk.count(1, ("cast", opt, raw))
        for form, got in res.items():
            if want == "same":
                # only the two forms are compared - but a documented spelling must not be refused
                if isinstance(got, str) and got.startswith("EXC "):
                    chk.violation({"kind": "cast", "opt": opt, "form": form}, "%s form of %s=%r is refused: %s" % (form, opt, raw, got), replay={"cast": item})
                continue
            if got != json.loads(want):
                chk.violation({"kind": "cast", "opt": opt, "form": form},
                              "%s form of %s=%r gives %r, documented value is %s" % (form, opt, raw, got, want), replay={"cast": item})
        if "keyword" in res and "cli" in res and res["keyword"] != res["cli"]:
            chk.violation({"kind": "cli_vs_keyword", "opt": opt},
                          "%s=%r: keyword form gives %r, command line gives %r" % (opt, raw, res["keyword"], res["cli"]), replay={"cast": item})
    chk.traces_validated = len(cfgs) + len(casts)
    chk.exhaustive = True
    chk.extra["configs"] = len(cfgs)
    chk.extra["configs_refused"] = nref
    chk.extra["casts"] = len(casts)
    chk.sample({"config": cfgs[len(cfgs) // 3], "cast": casts[len(casts) // 2]})
    chk.rule = ("TLC enumerates the whole bounded configuration space of Adjust.tla (every subset of the exclusive groups x trusted_proxy x count x header-kind sets x unknown option x socket kinds) "
                "and the cast table; every case is replayed on the real Adjustments in keyword and CLI form; non-trivial = a configuration that must be refused, or a cast case")
    chk.assumptions += ["the option table and cast table of Adjust.tla were written from docs/arguments.rst and docs/runner.rst", "listen values are only compared between the CLI and keyword forms"]
