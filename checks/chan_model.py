"""spec/Channel.tla: model checking of the implementation-shaped connection
model and trace validation of real executions against it.

The model slice covers: accept, plain and `Connection: close` requests
(pipelined, lookahead), responses of two write_soon calls, partial sends,
select-based poll, 1..2 workers.  Scenarios outside the slice (Expect, socket
faults, watermark waits, poll()) are explored on the code with the monitor
only; the evidence says which scenarios were bound to the model."""
import concurrent.futures as cf
import json
import os
import re
import shutil

from wv import explore, h_channel, tlc
from wv.core import MachineryFailure
from wv.par import pmap

CORE = ("requests", "total_outbufs_len", "will_close", "close_when_flushed", "connected")
OBJS = ["total_outbufs_len", "close_when_flushed", "will_close", "requests_lock", "outbuf_lock", "requests", "connected", "trigger", "sock", "next", "loop", "L"]
SUFFIX = re.compile(r"_(\d|c|s|e|io|w|ws|svc|scio|scw)$")


def labels():
    src = open(os.path.join(tlc.SPEC, "Channel.tla")).read()
    alg = src[src.index("--algorithm Channel"):src.index("BEGIN TRANSLATION")] if "BEGIN TRANSLATION" in src else src
    names = re.findall(r"^\s*([A-Za-z_][A-Za-z_0-9]*):", alg, flags=re.M)
    sig, internal = {}, []
    for n in names:
        base = n
        while SUFFIX.search(base):
            base = SUFFIX.sub("", base)
        hit = None
        for o in OBJS:
            if base.endswith("_" + o):
                rest = base[: -len(o) - 1]
                if "_" in rest:
                    func, kind = rest.rsplit("_", 1)
                    if kind in ("rd", "wr", "acq", "tryacq", "rel", "notify", "wait", "send", "recv", "drain", "pull", "select", "accept", "close", "app"):
                        hit = "%s.%s.%s" % (func, kind, o)
                        break
        if n in ("cl_connect", "cl_send", "cl_read", "cl_await100"):
            hit = "client.%s" % n[3:]
        if hit:
            sig[n] = hit
        else:
            internal.append(n)
    return sig, internal


def event_sig(name, label):
    """(thread, (kind, obj, func)) of the harness -> model signature or None (not in the model's alphabet)"""
    kind, obj, func = (list(label) + ["?", "?"])[:3]
    func = func.strip("_")
    if kind == "client":
        return "client.%s" % {"connect": "connect", "send": "send", "read": "read", "await100": "await100"}.get(obj, obj)
    if kind in ("rd", "wr"):
        return "%s.%s.%s" % (func, kind, obj) if obj in CORE else None
    if kind in ("acq", "tryacq", "rel", "notify", "wait"):
        return "%s.%s.%s" % (func, kind, obj) if obj in ("requests_lock", "outbuf_lock") else None
    if kind in ("send", "recv", "close"):
        return "%s.%s.sock" % (func, kind) if obj.startswith("c") else ("%s.%s.L" % (func, kind) if obj == "L" else None)
    if kind == "accept":
        return "%s.accept.L" % func
    if kind == "select":
        return "%s.select.loop" % func
    if kind in ("pull", "drain"):
        return "%s.%s.trigger" % (func, kind)
    if kind == "app":
        return "%s.app.next" % func
    return None


def constants_of(scn):
    """scenario of checks/chan_common.mk -> TLA+ definitions, or None when outside the model slice"""
    c = scn["conns"]
    if len(c) != 1 or scn.get("use_poll") or c[0].get("faults") or scn.get("accept_faults"):
        return None
    reqs = {r["k"]: r for r in c[0]["requests"]}
    if any(r.get("kind", "plain") not in ("plain", "close", "expect") or r.get("headers") for r in reqs.values()):
        return None
    a = scn["adj"]
    if a.get("send_bytes", 1) != 1 or "outbuf_high_watermark" in a:
        return None
    apps = scn.get("apps", {})
    if any(v.get("chunks", [3]) != [3] or v.get("cl", "exact") != "exact" or v.get("write") or v.get("raise_at") is not None for v in apps.values()):
        return None
    sends, ops = [], []
    P = lambda k, what: "[rid |-> %d, close |-> %s, what |-> \"%s\"]" % (k, "TRUE" if reqs[k].get("kind") == "close" else "FALSE", what)
    # the byte stream as a sequence of pieces; a send must end on a piece boundary to be in the slice
    stream = []
    for r in c[0]["requests"]:
        h, b = h_channel.request_bytes(r)
        if r.get("kind") == "expect":
            stream += [(len(h), P(r["k"], "head")), (len(b), P(r["k"], "body"))]
        else:
            stream.append((len(h) + len(b), P(r["k"], "full")))
    for act in c[0]["client"]:
        if act[0] == "send":
            n, ps = len(act[1]), []
            while n > 0 and stream and stream[0][0] <= n:
                n -= stream[0][0]
                ps.append(stream.pop(0)[1])
            if n != 0 or not ps:
                return None
            sends.append("<<%s>>" % ", ".join(ps))
            ops.append('[op |-> "send", n |-> 0, after |-> 0]')
        elif act[0] == "read":
            return None      # byte-granular partial sends: the model counts whole write_soon units
        elif act[0] == "readall":
            ops.append('[op |-> "read", n |-> -1, after |-> 0]')
        elif act[0] == "readall_after_block":
            ops.append('[op |-> "read", n |-> -1, after |-> %d]' % act[1])
        elif act[0] == "read_after_block":
            return None
        elif act[0] == "await100":
            ops.append('[op |-> "await100", n |-> %d, after |-> 0]' % act[1])
        elif act[0] != "connect":
            return None
    room = c[0].get("room")
    if room not in (None, 0):
        return None
    return {"MSends": "<<%s>>" % ", ".join(sends), "MOps": "<<%s>>" % ", ".join(ops), "MRoom": "-1" if room is None else str(room),
            "MWorkers": "{%s}" % ", ".join('"w%d"' % i for i in range(scn.get("workers", 1))), "Lookahead": a.get("channel_request_lookahead", 0)}


def record(args):
    """worker: run schedules of one scenario in model mode, return the VO traces"""
    scn, seed, n, dfs_limit = args
    from wv.core import repo_on_path
    repo_on_path()
    scn = dict(scn)
    scn["racy"] = CORE
    out = []

    def one(policy):
        evs = []

        def build(S):
            ctx = h_channel.Ctx(S, scn)

            def hook(name, label):
                g = event_sig(name, label) if label and label[0] != "start" else None
                if g is None:
                    return
                ch = ctx.chans.get("c1")
                d = ch.__dict__ if ch is not None else {}
                known = ch is not None and "_wv_requests" in d
                evs.append({"t": "cl" if name == "c1" else name, "g": g,
                            "s": {"known": bool(known), "total": d.get("_wv_total_outbufs_len", 0), "nreq": len(d.get("_wv_requests", ()) or ()),
                                  "will_close": bool(d.get("_wv_will_close", False)), "cwf": bool(d.get("_wv_close_when_flushed", False)),
                                  "connected": bool(d.get("_wv_connected", False))}})
            S.on_step = hook
            return ctx
        res, steps = explore.run_once(build, policy, budget=3000)
        return evs, [c for (_, c) in steps], res[-1].get("status")
    def keep(evs, choices, status):
        out.append({"ev": evs, "choices": choices, "status": status})
    e, c, st = one(explore.Replay([]))
    keep(e, c, st)
    for i in range(n):
        pol = explore.Preempt(seed * 7919 + i, k=1 + i % 3, horizon=max(len(c), 50)) if i % 2 else explore.PCT(seed * 7919 + i, d=2, horizon=max(len(c), 50))
        keep(*one(pol))
    seen, uniq = set(), []
    for t in out:
        k = json.dumps([(x["t"], x["g"]) for x in t["ev"]])
        if k not in seen:
            seen.add(k)
            uniq.append(t)
    return uniq


MC_INVS = ["WireIsPrefix", "ResponsesInOrder", "InterimPlacement", "ClientNotLeftWaiting", "InOrderExactlyOnce", "OneAtATime", "NoExecAfterCloseDecision", "TornOnceByIO", "NoCrash", "NoLostWakeup", "AllAnswered"]


def write_mc_module(wd, name, consts, extends="Channel"):
    with open(os.path.join(wd, name + ".tla"), "w") as f:
        f.write("---- MODULE %s ----\nEXTENDS %s\nMSends == %s\nMWorkers == %s\nMRoom == %s\nMOps == %s\n" % (
            name, extends, consts["MSends"], consts["MWorkers"], consts["MRoom"], consts["MOps"]))
        if extends != "Channel":
            sig, internal = labels()
            f.write("MSig == [x \\in {%s} |-> CASE %s]\n" % (", ".join('"%s"' % k for k in sig), " [] ".join('x = "%s" -> "%s"' % kv for kv in sig.items())))
            f.write("MInternal == {%s}\n" % ", ".join('"%s"' % k for k in internal))
        f.write("====\n")


CFG = ("CONSTANTS Sends <- MSends\nWorkers <- MWorkers\nRoomInit <- MRoom\nClientOps <- MOps\nLookahead = %d\nSendBytes = 1\nHWM = 16777216\nRespUnits = 2\n%sCHECK_DEADLOCK FALSE\n")


def mc_scenarios(thorough):
    R = lambda r, c="FALSE", w="full": '[rid |-> %d, close |-> %s, what |-> "%s"]' % (r, c, w)
    SEND, ALL, AW = '[op |-> "send", n |-> 0, after |-> 0]', '[op |-> "read", n |-> -1, after |-> 1]', lambda n: '[op |-> "await100", n |-> %d, after |-> 0]' % n
    RD = lambda n, after=0: '[op |-> "read", n |-> %d, after |-> %d]' % (n, after)
    O = lambda *xs: "<<%s>>" % ", ".join(xs)
    S = [({"MSends": "<< <<%s, %s>> >>" % (R(1), R(2)), "MWorkers": '{"w0"}', "MRoom": "-1", "MOps": O(SEND), "Lookahead": 0}, "2 pipelined, same read, la=0", "C04 C05 C11"),
         ({"MSends": "<< <<%s>>, <<%s>> >>" % (R(1), R(2)), "MWorkers": '{"w0"}', "MRoom": "0", "MOps": O(SEND, SEND, ALL), "Lookahead": 1}, "2 requests, later read, slow client, la=1", "C04 C05"),
         ({"MSends": "<< <<%s, %s>> >>" % (R(1, "TRUE"), R(2)), "MWorkers": '{"w0"}', "MRoom": "1", "MOps": O(SEND, ALL), "Lookahead": 1}, "close then plain, la=1", "C04 C05 C11"),
         ({"MSends": "<< <<%s, %s>>, <<%s>> >>" % (R(1), R(2, w="head"), R(2, w="body")), "MWorkers": '{"w0"}', "MRoom": "-1", "MOps": O(SEND, AW(1), SEND), "Lookahead": 1},
          "plain + expecting head in one read, client waits for the interim response, la=1", "C04 C19"),
         ({"MSends": "<< <<%s>>, <<%s, %s>> >>" % (R(1, w="head"), R(1, w="body"), R(2)), "MWorkers": '{"w0"}', "MRoom": "0", "MOps": O(SEND, ALL, AW(1), SEND), "Lookahead": 0},
          "expecting request alone, client waits, then body + plain, slow client, la=0", "C19")]
    if thorough:
        S += [({"MSends": "<< <<%s>>, <<%s>> >>" % (R(1), R(2)), "MWorkers": '{"w0", "w1"}', "MRoom": "0", "MOps": O(SEND, SEND, RD(1), ALL), "Lookahead": 1}, "2 workers, partial drain, la=1", ""),
              ({"MSends": "<< <<%s, %s>>, <<%s>> >>" % (R(1), R(2, "TRUE"), R(3)), "MWorkers": '{"w0", "w1"}', "MRoom": "1", "MOps": O(SEND, SEND, ALL), "Lookahead": 2}, "plain, close | plain, la=2, 2 workers", ""),
              ({"MSends": "<< <<%s>>, <<%s>>, <<%s>>, <<%s>> >>" % (R(1, w="head"), R(1, w="body"), R(2, w="head"), R(2, w="body")), "MWorkers": '{"w0"}', "MRoom": "1",
                "MOps": O(SEND, ALL, AW(1), SEND, SEND, AW(2), SEND), "Lookahead": 1}, "two expecting requests, slow client, la=1", ""),
              ({"MSends": "<< <<%s>>, <<%s, %s>>, <<%s>> >>" % (R(1), R(2), R(3, w="head"), R(3, w="body")), "MWorkers": '{"w0", "w1"}', "MRoom": "-1",
                "MOps": O(SEND, SEND, AW(1), SEND), "Lookahead": 2}, "plain | plain + expecting head, 2 workers, la=2", "")]
    return S


def model_check(chk, pid, scns=None, n_traces=None):
    """(1) TLC exhausts the interleavings of the model on small scenarios; (2) executions of the
    real server, recorded at the model's alphabet, are validated against the model."""
    def mc(item):
        consts, name = item[:2]
        wd = tlc.scratch("chan")
        try:
            write_mc_module(wd, "MC_Chan", consts)
            cfg = "SPECIFICATION Spec\n" + CFG % (consts["Lookahead"], "") + "".join("INVARIANT %s\n" % i for i in MC_INVS)
            return tlc.run("MC_Chan", cfg, workdir=wd, workers=5, timeout=2400)
        finally:
            shutil.rmtree(wd, ignore_errors=True)
    items = [it for it in mc_scenarios(chk.thorough) if chk.thorough or pid in it[2].split()]
    with cf.ThreadPoolExecutor(3) as ex:
        for item, r in zip(items, ex.map(mc, items)):
            chk.add_tlc("MC:Channel %s" % item[1], r, "every interleaving at visible-operation granularity")
            if r.violated:
                chk.violation({"kind": "model", "invariant": r.violated, "scenario": item[1]},
                              "Channel.tla (the model of the code) violates %s in scenario '%s'; last state:\n%s" % (r.violated, item[1], "\n".join(r.trace[-1:])[:1200]))
    # ---- trace validation ---------------------------------------------------
    bound = [(s, constants_of(s)) for s in (scns or [])]
    bound = [(s, c) for s, c in bound if c is not None]
    chk.extra["scenarios_bound_to_Channel_tla"] = [s.get("name") for s, _ in bound]
    if not bound:
        return
    n = n_traces if n_traces is not None else (60 if chk.thorough else 12)
    recs = pmap(record, [(s, chk.seed + i, n, 0) for i, (s, _) in enumerate(bound)])

    def tvrun(item):
        (scn, consts), traces = item
        wd = tlc.scratch("tvch")
        try:
            write_mc_module(wd, "TV_Chan", consts, extends="Trace_Channel")
            path = os.path.join(wd, "traces.json")
            with open(path, "w") as f:
                json.dump([{"id": i, "ev": t["ev"]} for i, t in enumerate(traces)], f)
            cfg = "SPECIFICATION TraceSpec\n" + CFG % (consts["Lookahead"], "SigOf <- MSig\nInternal <- MInternal\n")
            return tlc.run("TV_Chan", cfg, workdir=wd, workers=4, timeout=1200, env={"WV_TRACES": path})
        finally:
            shutil.rmtree(wd, ignore_errors=True)
    with cf.ThreadPoolExecutor(4) as ex:
        for ((scn, consts), traces), r in zip(zip(bound, recs), ex.map(tvrun, list(zip(bound, recs)))):
            chk.add_tlc("TV:Channel %s" % scn.get("name"), r, "%d recorded executions validated step by step" % len(traces))
            acc = {t[0] for t in tlc.printed_tuples(r, "ACC")}
            rej = {t[0]: t for t in tlc.printed_tuples(r, "REJ")}
            if len(acc) + len(rej) != len(traces):
                raise MachineryFailure("Trace_Channel: %d traces, %d accepted, %d rejected\n%s" % (len(traces), len(acc), len(rej), r.out[-1500:]))
            chk.traces_validated += len(acc)
            for i, t in list(rej.items())[:3]:
                chk.note_drift("execution of '%s' is not a behaviour of Channel.tla: event %d, thread expected at label %s, real operation %s" % (scn.get("name"), t[1], t[2], t[3]))
            if rej and len(chk.drift) >= 20:
                break
