"""Model checking of spec/Channel.tla slices (placeholder until the model is bound)."""


def model_check(chk, pid):
    return None
