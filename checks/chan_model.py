"""spec/Channel.tla: model checking of the implementation-shaped connection
model and trace validation of real executions against it.

The model counts output in bytes and covers: accept, plain / `Connection:
close` / `Expect: 100-continue` requests (pipelined, lookahead), responses as
sequences of write_soon calls of the recorded sizes, partial sends, send_bytes,
the high-watermark wait (Condition wait/notify), send faults (disconnect and
other errnos), a client that goes away, select-based poll, 1..2 workers.
Scenarios outside the slice (recv faults, poll(), file wrappers, application
errors, a second connection) are explored on the code with the monitor only;
the evidence names the scenarios that were bound to the model."""
import concurrent.futures as cf
import copy
import errno
import json
import os
import re
import shutil

from wv import explore, h_channel, tlc
from wv.core import MachineryFailure
from wv.par import pmap

CORE = ("requests", "total_outbufs_len", "will_close", "close_when_flushed", "connected")
OBJS = ["total_outbufs_len", "close_when_flushed", "will_close", "requests_lock", "outbuf_lock", "requests", "connected", "trigger", "sock", "next", "loop", "L"]
SUFFIX = re.compile(r"_(\d|a|c|s|e|x|io|w|ws|svc|scio|scw|hww|hws|hxw|hxs|xw|xs)$")
KINDS = ("rd", "wr", "acq", "tryacq", "rel", "notify", "wait", "send", "recv", "drain", "drained", "pull", "pulled", "select", "accept", "close", "app")
CLIENT_LABELS = ("cl_connect", "cl_send", "cl_read", "cl_await100", "cl_close")
INTERIM = 25


def labels():
    src = open(os.path.join(tlc.SPEC, "Channel.tla")).read()
    alg = src[src.index("--algorithm Channel"):src.index("BEGIN TRANSLATION")] if "BEGIN TRANSLATION" in src else src
    names = re.findall(r"^\s*([A-Za-z_][A-Za-z_0-9]*):", alg, flags=re.M)
    sig, internal = {}, []
    for n in names:
        base = n
        while SUFFIX.search(base):
            base = SUFFIX.sub("", base)
        hit = None
        for o in OBJS:
            if base.endswith("_" + o):
                rest = base[: -len(o) - 1]
                if "_" in rest:
                    func, kind = rest.rsplit("_", 1)
                    if kind in KINDS:
                        hit = "%s.%s.%s" % (func, kind, o)
                        break
        if n in CLIENT_LABELS:
            hit = "client.%s" % n[3:]
        if hit:
            sig[n] = hit
        else:
            internal.append(n)
    return sig, internal


def event_sig(name, label):
    """(thread, (kind, obj, func)) of the harness -> model signature or None (not in the model's alphabet)"""
    kind, obj, func = (list(label) + ["?", "?"])[:3]
    func = func.strip("_")
    if kind == "client":
        return "client.%s" % obj
    if kind in ("rd", "wr"):
        return "%s.%s.%s" % (func, kind, obj) if obj in CORE else None
    if kind in ("acq", "tryacq", "rel", "notify", "wait"):
        return "%s.%s.%s" % (func, kind, obj) if obj in ("requests_lock", "outbuf_lock") else None
    if kind in ("send", "recv", "close"):
        return "%s.%s.sock" % (func, kind) if obj.startswith("c") else ("%s.%s.L" % (func, kind) if obj == "L" else None)
    if kind == "accept":
        return "%s.accept.L" % func
    if kind == "select":
        return "poll.select.loop"        # wasyncore.poll (select) and poll2 (poll): the same step of the model
    if kind in ("pull", "drain", "pulled", "drained"):
        return "%s.%s.trigger" % (func, kind)
    if kind == "app":
        return "%s.app.next" % func if obj == "next" else None
    return None


def to_tla(v):
    if isinstance(v, bool):
        return "TRUE" if v else "FALSE"
    if isinstance(v, int):
        return str(v)
    if isinstance(v, str):
        return '"%s"' % v
    if isinstance(v, (list, tuple)):
        return "<<%s>>" % ", ".join(to_tla(x) for x in v)
    if isinstance(v, dict):
        return "[%s]" % ", ".join("%s |-> %s" % (k, to_tla(x)) for k, x in v.items())
    raise TypeError(v)


def in_slice(scn):
    c = scn["conns"]
    if len(c) != 1 or scn.get("accept_faults"):
        return False
    if set((c[0].get("faults") or {}).keys()) - {"send", "recv"}:
        return False
    reqs = c[0]["requests"]
    if [r["k"] for r in reqs] != list(range(1, len(reqs) + 1)):
        return False
    if any(r.get("kind", "plain") not in ("plain", "close", "expect", "http10", "http10_ka", "body", "chunked", "head") or r.get("headers") or r.get("lead") for r in reqs):
        return False
    if set(scn["adj"]) - {"channel_request_lookahead", "send_bytes", "outbuf_high_watermark", "log_socket_errors"}:
        return False
    for v in scn.get("apps", {}).values():
        if set(v) - {"chunks", "cl", "write", "raise_at", "raise"} or v.get("cl", "exact") not in ("exact", "none", "larger") or "sync" in v.get("chunks", []) or "peer" in v.get("chunks", []):
            return False
    return all(a[0] in ("connect", "send", "read", "readall", "readall_after_block", "read_after_block", "await100", "close") for a in c[0]["client"])


def write_sizes(scn):
    """sizes of the write_soon calls of every response, recorded from one execution of the scenario with a
    client that only sends and reads everything (no faults, no stall)"""
    from wv.core import repo_on_path
    repo_on_path()
    s2 = copy.deepcopy(scn)
    c = s2["conns"][0]
    c["client"] = [a for a in c["client"] if a[0] in ("connect", "send", "await100")]
    c["room"] = None
    c.pop("faults", None)
    s2["adj"] = {k: v for k, v in s2["adj"].items() if k == "channel_request_lookahead"}
    sizes = {}

    def build(S):
        ctx = h_channel.Ctx(S, s2)
        orig = ctx.on_write_soon

        def cur():
            starts = [e for e in ctx.events if e["k"] == "app_start"]
            return starts[-1]["r"] if starts else None

        def ows(chan, data):
            if cur() is not None and len(data) != INTERIM:
                sizes.setdefault(cur(), []).append(len(data))
            return orig(chan, data)
        ctx.on_write_soon = ows

        ctx.on_app_next = lambda: sizes.setdefault(cur(), []).append(0) if cur() is not None else None      # the iterator is advanced
        return ctx
    res, _ = explore.run_once(build, explore.Replay([]), budget=6000)
    n = len(c["requests"])
    if res[-1].get("status") not in ("quiescent", "done") or sorted(sizes) != list(range(1, len(sizes) + 1)):
        return None
    finals = [r for r in res[-1]["conns"][0]["resp"] if not r.get("interim")]
    # an exchange closes the connection when its response says so, or when the application failed / promised more
    # bytes than it produced (close_on_finish is then set without a Connection: close header)
    from checks import chan_common
    must = [r["mustclose"] for r in chan_common.cfg_of(s2)["conns"][0]["reqs"]]
    closes = [(bool(finals[k - 1].get("close")) if k <= len(finals) else False) or must[k - 1] for k in range(1, n + 1)]
    if len(finals) != len(sizes) or (len(sizes) < n and not closes[len(sizes) - 1]):
        return None
    # requests behind a closing exchange are never executed: no writes
    return [sizes.get(k, []) for k in range(1, n + 1)], closes


def constants_of(scn):
    """scenario of checks/chan_common.mk -> the model's cfg record (python form), or None when outside the slice"""
    if not in_slice(scn):
        return None
    from waitress.wasyncore import _DISCONNECTED
    c = scn["conns"][0]
    reqs = {r["k"]: r for r in c["requests"]}
    a = scn["adj"]
    rec = write_sizes(scn)
    if rec is None:
        return None
    writes, closes = rec
    P = lambda k, what: {"rid": k, "close": closes[k - 1], "what": what}
    # the byte stream as a sequence of pieces; a send must end on a piece boundary to be in the slice
    stream = []
    for r in c["requests"]:
        h, b = h_channel.request_bytes(r)
        if r.get("kind") == "expect":
            stream += [(len(h), P(r["k"], "head")), (len(b), P(r["k"], "body"))]
        else:
            stream.append((len(h) + len(b), P(r["k"], "full")))
    sends, ops = [], []
    O = lambda op, n=0, after=0: {"op": op, "n": n, "after": after}
    for act in c["client"]:
        if act[0] == "send":
            n, ps = len(act[1]), []
            while n > 0 and stream and stream[0][0] <= n:
                n -= stream[0][0]
                ps.append(stream.pop(0)[1])
            if n != 0 or not ps:
                return None
            sends.append(ps)
            ops.append(O("send"))
        elif act[0] == "read":
            ops.append(O("read", act[1]))
        elif act[0] == "readall":
            ops.append(O("read", -1))
        elif act[0] == "readall_after_block":
            ops.append(O("read", -1, act[1]))
        elif act[0] == "read_after_block":
            ops.append(O("read", act[2], act[1]))
        elif act[0] == "await100":
            ops.append(O("await100", act[1]))
        elif act[0] == "close":
            ops.append(O("close"))
    room = c.get("room")
    sf = []
    for e in (c.get("faults") or {}).get("send", []):
        sf.append("ok" if e is None else ("disc" if e in _DISCONNECTED else "hard"))
    rf = []
    for e in (c.get("faults") or {}).get("recv", []):
        rf.append("ok" if e is None else ("eof" if e == "eof" else ("disc" if e in _DISCONNECTED else "hard")))
    return {"rfaults": rf, "sends": sends, "writes": writes, "interim": INTERIM, "lookahead": a.get("channel_request_lookahead", 0),
            "sendbytes": a.get("send_bytes", 1), "hwm": a.get("outbuf_high_watermark", 16777216), "sndbuf": c.get("sndbuf", 65536),
            "room": -1 if room is None else room, "ops": ops, "sfaults": sf, "workers": scn.get("workers", 1), "usepoll": bool(scn.get("use_poll", False))}


def record(args):
    """worker: run schedules of one scenario in model mode, return the VO traces"""
    scn, seed, n, dfs_limit = args
    from wv.core import repo_on_path
    repo_on_path()
    scn = dict(scn)
    scn["racy"] = CORE
    out = []

    def one(policy):
        evs = []

        def build(S):
            ctx = h_channel.Ctx(S, scn)

            def hook(name, label):
                g = event_sig(name, label) if label and label[0] != "start" else None
                if g is None:
                    return
                ch = ctx.chans.get("c1")
                d = ch.__dict__ if ch is not None else {}
                known = ch is not None and "_wv_requests" in d
                evs.append({"t": "cl" if name == "c1" else name, "g": g, "i": S.nsteps,
                            "s": {"known": bool(known), "total": d.get("_wv_total_outbufs_len", 0), "nreq": len(d.get("_wv_requests", ()) or ()),
                                  "will_close": bool(d.get("_wv_will_close", False)), "cwf": bool(d.get("_wv_close_when_flushed", False)),
                                  "connected": bool(d.get("_wv_connected", False))}})
            S.on_step = hook
            return ctx
        res, steps = explore.run_once(build, policy, budget=3000)
        return evs, [c for (_, c) in steps], res[-1].get("status")

    def keep(evs, choices, status):
        out.append({"ev": evs, "choices": choices, "status": status})
    e, c, st = one(explore.Replay([]))
    keep(e, c, st)
    for i in range(n):
        pol = explore.Preempt(seed * 7919 + i, k=1 + i % 3, horizon=max(len(c), 50)) if i % 2 else explore.PCT(seed * 7919 + i, d=2, horizon=max(len(c), 50))
        keep(*one(pol))
    seen, uniq = set(), []
    for t in out:
        k = json.dumps([(x["t"], x["g"]) for x in t["ev"]])
        if k not in seen:
            seen.add(k)
            uniq.append(t)
    return uniq


MC_INVS = ["WireIsPrefix", "ResponsesInOrder", "InterimPlacement", "ClientNotLeftWaiting", "InOrderExactlyOnce", "OneAtATime", "NoExecAfterCloseDecision",
           "TornOnceByIO", "NoCrash", "NoLostWakeup", "AllAnswered", "BacklogBounded", "ProducerReleased", "DeadConnectionClosed"]


def write_module(wd, name, cfg=None, extends="Channel", workers=1):
    with open(os.path.join(wd, name + ".tla"), "w") as f:
        f.write("---- MODULE %s ----\nEXTENDS %s\nMWorkers == {%s}\n" % (name, extends, ", ".join('"w%d"' % i for i in range(workers))))
        if cfg is not None:
            f.write("MCfgSet == {%s}\n" % to_tla({k: v for k, v in cfg.items() if k != "workers"}))
        if extends != "Channel":
            sig, internal = labels()
            f.write("MSig == [x \\in {%s} |-> CASE %s]\n" % (", ".join('"%s"' % k for k in sig), " [] ".join('x = "%s" -> "%s"' % kv for kv in sig.items())))
            f.write("MInternal == {%s}\n" % ", ".join('"%s"' % k for k in internal))
        f.write("====\n")


def mc_scenarios(thorough):
    """small scenarios for exhaustive search: (cfg, name, properties it is run for in the quick tier)"""
    R = lambda r, c=False, w="full": {"rid": r, "close": c, "what": w}
    O = lambda op, n=0, after=0: {"op": op, "n": n, "after": after}
    SEND, ALL, AW = O("send"), O("read", -1, 1), lambda n: O("await100", n)
    base = {"interim": 1, "sendbytes": 1, "hwm": 1000, "sndbuf": 100, "room": -1, "sfaults": [], "rfaults": [], "lookahead": 0, "workers": 1, "usepoll": False}

    def M(**kw):
        d = dict(base)
        d.update(kw)
        return d
    W2 = [[2, 1], [2, 1], [1, 1]]
    W1 = [[0, 2, 0], [1], [1]]
    # (name, properties served in the quick tier, quick cfg, thorough cfg or None = same)
    T = [("2 pipelined, same read, la=0", "C04 C05 C11",
          M(sends=[[R(1), R(2)]], writes=W2, ops=[SEND]), None),
         ("2 requests, later read, slow client, la=1", "C04 C05",
          M(sends=[[R(1)], [R(2)]], writes=W1, ops=[SEND, SEND, ALL], room=0, lookahead=1),
          M(sends=[[R(1)], [R(2)]], writes=W2, ops=[SEND, SEND, ALL], room=0, lookahead=1)),
         ("close then plain, la=1", "C04 C05 C11",
          M(sends=[[R(1, True), R(2)]], writes=W2, ops=[SEND, ALL], room=1, lookahead=1), None),
         ("plain + expecting head in one read, client waits for the interim response, la=1", "C04 C19",
          M(sends=[[R(1), R(2, w="head")], [R(2, w="body")]], writes=W2, ops=[SEND, AW(1), SEND], lookahead=1), None),
         ("expecting request alone, client waits, then body + plain, slow client, la=0", "C19",
          M(sends=[[R(1, w="head")], [R(1, w="body"), R(2)]], writes=W2, ops=[SEND, ALL, AW(1), SEND], room=0), None),
         ("partial sends with two out buffers pending, la=1", "C04",
          M(sends=[[R(1), R(2)]], writes=[[2], [1]], ops=[SEND, O("read", 1, 1), O("read", -1, 2)], room=1, lookahead=1),
          M(sends=[[R(1), R(2)]], writes=[[3, 2], [1]], ops=[SEND, O("read", 2, 1), O("read", 2, 2), ALL], room=1, lookahead=1)),
         ("producer above the mark, reader takes a little, then all", "C12 C05",
          M(sends=[[R(1)]], writes=[[2, 2]], ops=[SEND, O("read", 1, 1), O("read", -1, 2)], room=1, hwm=1),
          M(sends=[[R(1)]], writes=[[2, 2, 2]], ops=[SEND, O("read", 1, 1), O("read", 2, 2), O("read", -1, 3)], room=1, hwm=2)),
         ("mark = 0, reader takes a little, then all", "C12",
          M(sends=[[R(1)]], writes=[[2, 2]], ops=[SEND, O("read", 1, 1), O("read", -1, 2)], room=0, hwm=0),
          M(sends=[[R(1)]], writes=[[2, 2, 2]], ops=[SEND, O("read", 3, 1), O("read", -1, 2)], room=0, hwm=0)),
         ("send_bytes above the mark", "C12 C05",
          M(sends=[[R(1)]], writes=[[3, 3]], ops=[SEND, O("read", -1, 1)], room=0, hwm=1, sendbytes=5), None),
         ("producer above the mark, client goes away", "C12 C13",
          M(sends=[[R(1)]], writes=[[2, 2]], ops=[SEND, O("close")], room=1, hwm=1),
          M(sends=[[R(1)]], writes=[[2, 2, 2]], ops=[SEND, O("read", 1, 1), O("close")], room=1, hwm=2)),
         ("second send fails with an errno reported to the caller, request queued behind, la=1", "C13 C11",
          M(sends=[[R(1), R(2)]], writes=[[2, 1], [1]], ops=[SEND], sfaults=["ok", "hard"], lookahead=1), None),
         ("first send fails with a disconnect errno, request queued behind, la=1", "C13 C11",
          M(sends=[[R(1), R(2)]], writes=[[2, 1], [1]], ops=[SEND], sfaults=["disc"], lookahead=1), None),
         ("producer above the mark, a later send fails", "C13 C12",
          M(sends=[[R(1)]], writes=[[2, 2]], ops=[SEND, O("read", -1, 1)], room=1, hwm=1, sfaults=["ok", "ok", "ok", "hard"]),
          M(sends=[[R(1)]], writes=[[2, 2, 2]], ops=[SEND, O("read", 1, 1), O("read", -1, 2)], room=1, hwm=1, sfaults=["ok", "ok", "ok", "ok", "hard"])),
         ("a send of the I/O thread fails while the worker is paused between two requests, la=1", "C11 only",   # (reproduces known finding K-C11-...)
          M(sends=[[R(1), R(2)]], writes=[[3], [1]], ops=[SEND, O("read", 1, 2)], room=1, hwm=1, sfaults=["ok", "ok", "ok", "hard"], lookahead=1), None),
         ("response above the mark, follower queued, client goes away while the worker is between the two, la=1", "C12 C13 only",   # (reproduces known finding K-C12-wait-after-teardown)
          M(sends=[[R(1), R(2)]], writes=[[2], [1]], ops=[SEND, O("close")], room=0, hwm=1, lookahead=1), None),
         ("second recv fails while the first request runs, la=1", "C13 C11",
          M(sends=[[R(1)], [R(2)]], writes=[[2, 1], [1]], ops=[SEND, SEND], rfaults=["ok", "hard"], lookahead=1), None),
         ("recv reports a disconnect errno with a request queued, la=1", "C13",
          M(sends=[[R(1)], [R(2)]], writes=[[2, 1], [1]], ops=[SEND, SEND], rfaults=["ok", "disc"], lookahead=1), None),
         ("the send of the deferred interim response fails with an errno reported to the caller, la=1", "C13 C19",
          M(sends=[[R(1), R(2, w="head")], [R(2, w="body")]], writes=W2, ops=[SEND, AW(1), SEND], lookahead=1, sfaults=["ok", "hard"]), None),
         ("the interim response sent on receipt fails with a disconnect errno, la=0", "C13 C19",
          M(sends=[[R(1, w="head")], [R(1, w="body")]], writes=W2, ops=[SEND, AW(1), SEND], sfaults=["disc"]), None),
         ("poll2: second recv fails while the first request runs and output is pending, la=1", "C13 C05",
          M(sends=[[R(1)], [R(2)]], writes=[[2, 1], [1]], ops=[SEND, SEND, O("read", -1, 1)], rfaults=["ok", "hard"], lookahead=1, room=0, usepoll=True), None),
         ("producer above the mark, lookahead=1, client goes away (seen by recv)", "C13 C12",
          M(sends=[[R(1)]], writes=[[2, 2, 2]], ops=[SEND, O("close")], room=0, hwm=1, lookahead=1), None)]
    # quick variants are also checked for the liveness property ComesToRest (fair scheduling); the larger ones for safety only
    S = [(q, name, props, True) for name, props, q, t in T]
    if thorough:
        S += [(t, name + " (larger)", props.replace("only", "") + " thorough", False) for name, props, q, t in T if t is not None]
    if thorough:
        S += [(M(sends=[[R(1)], [R(2)]], writes=[[2], [1]], ops=[SEND, SEND, O("read", 1), ALL], room=0, lookahead=1, workers=2), "2 workers, partial drain, la=1", "C04 C05 thorough", False),
              (M(sends=[[R(1), R(2, True)], [R(3)]], writes=[[1], [1], [1]], ops=[SEND, SEND, ALL], room=1, lookahead=2, workers=2), "plain, close | plain, la=2, 2 workers", "C04 C11 thorough", False),
              (M(sends=[[R(1, w="head")], [R(1, w="body")], [R(2, w="head")], [R(2, w="body")]], writes=W2, ops=[SEND, O("read", -1), AW(1), SEND, SEND, AW(2), SEND], room=1, lookahead=1),
               "two expecting requests, slow client, la=1", "C19 thorough", False),
              (M(sends=[[R(1)], [R(2), R(3, w="head")], [R(3, w="body")]], writes=W2, ops=[SEND, SEND, AW(1), SEND], lookahead=2, workers=2),
               "plain | plain + expecting head, 2 workers, la=2", "C19 C04 thorough", False),
              (M(sends=[[R(1), R(2)]], writes=[[2, 2], [2]], ops=[SEND, O("read", 1, 1), O("read", 2, 2), O("read", -1, 3)], room=1, hwm=1, lookahead=1, workers=2),
               "two producers above the mark, 2 workers, la=1", "C12 thorough", False),
              (M(sends=[[R(1), R(2)]], writes=[[2, 2], [2]], ops=[SEND, O("read", 1, 1), O("close")], room=1, hwm=1, lookahead=1, sfaults=["ok", "ok", "disc"]),
               "producer above the mark, disconnect errno, then the client goes away, la=1", "C13 thorough", False)]
    return S


def model_check(chk, pid, scns=None, n_traces=None, mc_part=True, replay_part=True, label=""):
    """(1) TLC exhausts the interleavings of the model on small scenarios; (2) executions of the
    real server, recorded at the model's alphabet, are validated against the model."""
    def mc(item):
        cfg, name = item[:2]
        wd = tlc.scratch("chan")
        try:
            write_module(wd, "MC_Chan", cfg, workers=cfg["workers"])
            text = "SPECIFICATION Spec\nCONSTANTS CfgSet <- MCfgSet\nWorkers <- MWorkers\nCHECK_DEADLOCK FALSE\n" + "".join("INVARIANT %s\n" % i for i in MC_INVS)
            r = tlc.run("MC_Chan", text + ("PROPERTY ComesToRest\n" if item[3] else ""), workdir=wd, workers=5, timeout=3000)
            r2 = None
            if r.violated:
                # a listed finding that names a constraint: search the rest of the scenario's state space without it
                from wv.core import _match
                for f in chk.findings:
                    if f.get("mc_constraint") and _match(f.get("match", {}), {"kind": "model", "invariant": r.violated, "scenario": name}):
                        r2 = tlc.run("MC_Chan", text + "CONSTRAINT %s\n" % f["mc_constraint"], workdir=wd, workers=5, timeout=3000)
                        break
            return r, r2
        finally:
            shutil.rmtree(wd, ignore_errors=True)
    # quick: the small scenarios tagged for the property (with liveness); thorough: every small scenario (with liveness)
    # plus the larger variants and the multi-worker scenarios tagged for the property (safety)
    items = [it for it in mc_scenarios(chk.thorough)
             if pid in it[2].split() or (chk.thorough and "thorough" not in it[2].split() and "only" not in it[2].split())]
    if not mc_part:
        items = []
    with cf.ThreadPoolExecutor(3) as ex:
        for item, (r, r2) in zip(items, ex.map(mc, items)):
            if r2 is not None:
                chk.add_tlc("MC:Channel %s [states of the listed finding excluded]" % item[1], r2, "every other interleaving; safety invariants")
                if r2.violated:
                    chk.violation({"kind": "model_beyond_listed_finding", "invariant": r2.violated, "scenario": item[1]},
                                  "Channel.tla violates %s in scenario '%s' also outside the listed finding; last state:\n%s" % (r2.violated, item[1], "\n".join(r2.trace[-1:])[:1200]))
            chk.add_tlc("MC:Channel %s" % item[1], r, "every interleaving at visible-operation granularity" + ("; safety invariants + liveness (comes to rest under fair scheduling)" if item[3] else "; safety invariants"))
            if r.violated:
                chk.violation({"kind": "model", "invariant": r.violated, "scenario": item[1]},
                              "Channel.tla (the model of the code) violates %s in scenario '%s'; last state:\n%s" % (r.violated, item[1], "\n".join(r.trace[-1:])[:1200]))
    # ---- trace validation ---------------------------------------------------
    bound = [(s, constants_of(s)) for s in (scns or [])]
    bound = [(s, c) for s, c in bound if c is not None]
    chk.extra["scenarios_bound_to_Channel_tla"] = chk.extra.get("scenarios_bound_to_Channel_tla", []) + [s.get("name") for s, _ in bound]
    if not bound:
        return
    n = n_traces if n_traces is not None else (36 if chk.thorough else 12)
    recs = pmap(record, [(s, chk.seed + i, n, 0) for i, (s, _) in enumerate(bound)])
    groups = {}
    for (scn, cfg), traces in zip(bound, recs):
        g = groups.setdefault(cfg["workers"], [])
        c = {k: v for k, v in cfg.items() if k != "workers"}
        for t in traces:
            g.append({"id": len(g), "scn": scn.get("name"), "scn_obj": dict(scn, racy=list(CORE)), "choices": t["choices"], "cfg": c, "ev": t["ev"]})

    def tvrun(item):
        workers, traces = item
        wd = tlc.scratch("tvch")
        try:
            write_module(wd, "TV_Chan", None, extends="Trace_Channel", workers=workers)
            path = os.path.join(wd, "traces.json")
            with open(path, "w") as f:
                json.dump([{"id": t["id"], "cfg": t["cfg"], "ev": t["ev"]} for t in traces], f)
            text = "SPECIFICATION TraceSpec\nCONSTANTS CfgSet <- TraceCfgs\nWorkers <- MWorkers\nSigOf <- MSig\nInternal <- MInternal\nCHECK_DEADLOCK FALSE\n"
            # one TLC worker: the search is linear, and several workers contend on the deserialised trace values
            return tlc.run("TV_Chan", text, workdir=wd, workers=1, timeout=2400, env={"WV_TRACES": path})
        finally:
            shutil.rmtree(wd, ignore_errors=True)
    CH = 120
    around = []
    items = []
    for workers, traces in sorted(groups.items()):
        for i in range(0, len(traces), CH):
            items.append((workers, traces[i:i + CH]))
    with cf.ThreadPoolExecutor(6) as ex:
        for (workers, traces), r in zip(items, ex.map(tvrun, items)):
            chk.add_tlc("TV:Channel %s%d worker(s), %d scenarios" % (label and label + " ", workers, len({t["scn"] for t in traces})), r, "%d recorded executions validated step by step" % len(traces))
            acc = {t[0] for t in tlc.printed_tuples(r, "ACC")}
            rej = {t[0]: t for t in tlc.printed_tuples(r, "REJ")}
            if len(acc) + len(rej) != len(traces):
                raise MachineryFailure("Trace_Channel: %d traces, %d accepted, %d rejected\n%s" % (len(traces), len(acc), len(rej), r.out[-1500:]))
            chk.traces_validated += len(acc)
            byid = {t["id"]: t for t in traces}
            shown = {}
            for i, t in sorted(rej.items()):
                name = byid[int(i)]["scn"]
                if shown.get(name, 0) >= 2:
                    continue
                shown[name] = shown.get(name, 0) + 1
                chk.note_drift("execution of '%s' is not a behaviour of Channel.tla: event %d, thread expected at label %s, real operation %s" % (name, t[1], t[2], t[3]))
                if len(around) < 8:
                    tr = byid[int(i)]
                    k = min(max(int(t[1]) - 1, 0), len(tr["ev"]) - 1)
                    step = tr["ev"][k].get("i", 0) if tr["ev"] else 0
                    around.append((tr["scn_obj"], tr["choices"], step - 25, step + 60, 120 if chk.thorough else 50))
    if replay_part:
        replay_model(chk, pid, bound)
    if around:
        # drift-guided search: the executions left the model at these points - look for property violations right
        # there (single pre-emptions around the deviation), judged by the observable-event monitor
        from checks import chan_common
        res = pmap(h_channel.explore_around, around)
        chk.extra["drift_guided_runs"] = sum(r["runs"] for r in res)
        chan_common.judge_results(chk, pid, res, label="drift-guided")


# ---------------------------------------------------------------------------------------------------------------
# spec -> code: behaviours of the model generated by TLC (simulation mode) are replayed on the real server
def simulate(cfg, n, depth, seed):
    """-> list of behaviours, each the list of (thread, label) steps (all labels, also control points)"""
    wd = tlc.scratch("sim")
    try:
        write_module(wd, "MC_Sim", cfg, workers=cfg["workers"])
        with open(os.path.join(wd, "MC_Sim.cfg"), "w") as f:
            f.write("SPECIFICATION Spec\nCONSTANTS CfgSet <- MCfgSet\nWorkers <- MWorkers\nCHECK_DEADLOCK FALSE\n")
        out = os.path.join(wd, "out")
        os.makedirs(out)
        import subprocess
        cmd = ["java", "-XX:+UseParallelGC", "-Xmx2g", "-cp", tlc.JAR, "-DTLA-Library=%s" % tlc.SPEC, "tlc2.TLC", "-simulate", "file=%s/tr,num=%d" % (out, n),
               "-depth", str(depth), "-workers", "1", "-seed", str(seed), "-metadir", os.path.join(wd, "meta"), "MC_Sim"]
        p = subprocess.run(cmd, cwd=wd, stdout=subprocess.PIPE, stderr=subprocess.STDOUT, text=True, timeout=600)
        behs = []
        for fn in sorted(os.listdir(out)):
            txt = open(os.path.join(out, fn)).read()
            pcs = re.findall(r"/\\ pc = \[([^\]]*)\]", txt)
            prev, steps = None, []
            for m in pcs:
                cur = dict(re.findall(r'(\w+) \|-> "(\w+)"', m))
                if prev is not None:
                    moved = [t for t in cur if cur[t] != prev.get(t)]
                    if len(moved) == 1:
                        steps.append((moved[0], prev[moved[0]]))
                    elif len(moved) > 1:
                        steps = None
                        break
                prev = cur
            if steps:
                behs.append(steps)
        if not behs:
            raise MachineryFailure("TLC simulation produced no behaviour:\n%s" % p.stdout[-1200:])
        return behs
    finally:
        shutil.rmtree(wd, ignore_errors=True)


def replay_behaviours(args):
    """worker: generate behaviours of the model for one bound scenario and run each on the real server"""
    scn, cfg, n, seed = args
    from wv.core import repo_on_path
    repo_on_path()
    sig, _internal = labels()
    behs = simulate(cfg, n, 700, seed)
    scn = dict(scn)
    scn["racy"] = list(CORE)
    out = []
    for steps in behs:
        seq = [("c1" if t == "cl" else t, sig[l]) for (t, l) in steps if l in sig]
        pol = explore.Guided(seq, lambda name, label: (event_sig(name, label) if label and label[0] != "start" else None), pickup="service.rd.requests")

        def build(S, pol=pol):
            ctx = h_channel.Ctx(S, scn)

            def hook(name, label):
                g = event_sig(name, label) if label and label[0] != "start" else None
                if g is not None:
                    pol.note(name, g)
            S.on_step = hook
            return ctx
        res, st = explore.run_once(build, pol, budget=6000)
        out.append({"choices": [c for (_, c) in st], "events": res, "followed": pol.k, "length": len(seq), "diverged": pol.diverged})
    return {"scn": scn, "runs": out}


def replay_model(chk, pid, bound):
    """spec -> code.  The executions are judged by the observable-event monitor like any other; a behaviour the code
    cannot follow is a model mismatch (drift)."""
    from checks import chan_common
    n = 12 if chk.thorough else 3
    pick = bound if chk.thorough else bound[:: max(1, len(bound) // 6)][:6]
    jobs = [({k: v for k, v in s.items() if k != "racy"}, c, n, chk.seed * 31 + i) for i, (s, c) in enumerate(pick)]
    results = pmap(replay_behaviours, jobs)
    total = followed = 0
    packed = []
    for r in results:
        traces = []
        for x in r["runs"]:
            total += 1
            if x["diverged"] is None:
                followed += 1
            elif len(chk.drift) < 20:
                chk.note_drift("the code cannot follow a behaviour of Channel.tla in '%s': step %d of %d, the model does %s, the code %s" % (
                    r["scn"].get("name"), x["diverged"][0], x["length"], x["diverged"][1], x["diverged"][2]))
            traces.append((x["choices"], x["events"]))
        packed.append({"scn": r["scn"], "runs": len(traces), "dfs": 0, "dfs_exhausted": False, "traces": traces, "wall": 0, "maxsteps": 0})
    chk.extra["model_behaviours_replayed_on_the_code"] = total
    chk.extra["model_behaviours_followed_to_the_end"] = followed
    chan_common.judge_results(chk, pid, packed, label="spec-to-code")
