"""Randomised scenarios for the channel harness: requests x client behaviour x socket room x faults x adjustments x
application scripts, drawn from a seeded generator.  Every scenario is judged by the same monitor (spec/Pipeline.tla)
as the hand-written ones: what must happen follows from the scenario itself (checks/chan_common.cfg_of)."""
import errno
import random

from checks import chan_common as cc

KINDS = ["plain", "plain", "plain", "close", "http10", "http10_ka", "body", "chunked", "head", "expect", "te10", "te_cl", "te_cl_empty"]
HARD = [errno.EINVAL, errno.ETIMEDOUT, errno.EHOSTUNREACH]
DISC = [errno.EPIPE, errno.ECONNRESET]


def scenario(rng, i):
    n = rng.choice([1, 2, 2, 3])
    reqs = []
    for k in range(1, n + 1):
        kind = rng.choice(KINDS)
        r = {"k": k, "kind": kind}
        if kind in ("body", "expect"):
            r["blen"] = rng.choice([2, 3, 20])
        if k > 1 and rng.random() < 0.08:
            r["lead"] = rng.choice([1, 2])            # stray CRLFs in front of the request line
        reqs.append(r)
    has_expect = any(r["kind"] == "expect" for r in reqs)
    la = rng.choice([0, 0, 1, 2])
    workers = rng.choice([1, 1, 2])
    if has_expect:
        split = rng.choice(["one", "headbody", "joinheads", "bodyhead"])
        waits = tuple(r["k"] for r in reqs if r["kind"] == "expect") if split != "one" and rng.random() < 0.6 else ()
        body_in_two = (not waits) and rng.random() < 0.5
        part_with_head = bool(waits) and split == "joinheads" and rng.random() < 0.5
    else:
        split = rng.choice(["one", "one", "each", "half", "cutfollower"] if n > 1 else ["one", "half"])
        waits, body_in_two, part_with_head = (), False, False
    apps = {}
    for r in reqs:
        if r["kind"] == "head":
            apps[r["k"]] = {"chunks": [], "cl": "exact"}      # (body bytes for HEAD break the WSGI contract)
            continue
        if rng.random() < 0.07:
            apps[r["k"]] = {"chunks": [rng.choice([3, 40, 120])], "filewrapper": True, "cl": rng.choice(["exact", "none"])}
        elif rng.random() < 0.6:
            spec = {"chunks": [rng.choice([0, 3, 30, 60]) for _ in range(rng.choice([1, 2, 3]))]}
            spec["cl"] = rng.choice(["exact", "exact", "none", "larger"])
            if rng.random() < 0.15:
                spec["write"] = True
                if spec["cl"] == "larger":
                    spec["cl"] = "none"
            if rng.random() < 0.15:
                # (an application that used write() has nothing left to iterate over: it can only fail at the first step)
                spec["raise_at"] = 0 if spec.get("write") else rng.randrange(0, len(spec["chunks"]) + 1)
            apps[r["k"]] = spec
    adj = {}
    if rng.random() < 0.4:
        adj["outbuf_high_watermark"] = rng.choice([0, 1, 30, 100])
    if rng.random() < 0.2:
        adj["send_bytes"] = rng.choice([0, 100, 300])
    if rng.random() < 0.25:
        adj["log_socket_errors"] = False
    if rng.random() < 0.1:
        adj["outbuf_overflow"] = 250
    room = rng.choice([None, None, 0, 10, 60])
    faults = None
    drains = True
    extra = []
    if room is not None:
        # a reader that takes a few bytes now and then and finally everything
        steps = rng.choice([0, 1, 2])
        extra = [["read_after_block", j + 1, rng.choice([5, 20, 60])] for j in range(steps)] + [["readall_after_block", steps + 1]]
        if adj.get("send_bytes", 1) > 1:
            # the server may hold small output back without ever trying to send: a reader that waits to see the socket
            # full would wait for ever (an artefact of the scripted client, not of the server)
            extra = [["readall"]]
    if waits and room is not None:
        # the client of a waiting scenario starts reading before it waits for the interim response (mk: read_before_await);
        # a later "after the socket was found full" step could never be enabled (an artefact of the scripted client)
        extra = []
        if split == "joinheads" and room > 10:
            room = 10
    mode = rng.random()
    if mode < 0.2:
        e = rng.choice(HARD + DISC)
        faults = {"send": [None] * rng.randrange(0, 5) + [e] * rng.choice([1, 1, 6])}
        drains = False
    elif mode < 0.28 and not has_expect:
        # (EAGAIN from recv: a spurious readiness report; from send it just means "no room", which `room` already covers)
        faults = {"recv": [None] * rng.randrange(0, 2) + [rng.choice(HARD + DISC + ["eof", errno.EAGAIN])]}
        drains = False
    elif mode < 0.36 and not waits:
        extra = extra[:-1] + [[rng.choice(["close", "reset"])]] if extra else [[rng.choice(["close", "reset"])]]
        drains = False
    use_poll = rng.random() < 0.2
    name = "random#%d %s la=%d w=%d split=%s%s room=%s adj=%s%s%s" % (
        i, "+".join(r["kind"] + ("(lead)" if r.get("lead") else "") for r in reqs), la, workers, split, "+part" if part_with_head else "", room, sorted(adj.items()), " faults=%s" % {k: [x if x in (None, "eof") else errno.errorcode[x] for x in v] for k, v in faults.items()} if faults else "",
        " client=%s" % extra if extra else "")
    try:
        return cc.mk(reqs, lookahead=la, workers=workers, room=room, split=split, apps=apps, adj=adj, use_poll=use_poll, drains=drains,
                     extra_client=extra, faults=faults, waits=waits, read_before_await=bool(waits) and room is not None, body_in_two=body_in_two, part_with_head=part_with_head, name=name)
    except Exception:
        return None


def scenarios(seed, n):
    rng = random.Random(seed)
    out = []
    i = 0
    while len(out) < n and i < 10 * n:
        i += 1
        s = scenario(rng, i)
        if s is not None:
            out.append(s)
    return out


def explore(chk, pid, n=None, n_pct=None, dfs=None, bind=True):
    """n random scenarios (seeded by the check's seed): schedules of each explored on the real server and judged by the
    monitor; those inside the slice of spec/Channel.tla are also validated step by step against the model"""
    n = n if n is not None else (600 if chk.thorough else 80)
    n_pct = n_pct if n_pct is not None else (60 if chk.thorough else 20)
    dfs = dfs if dfs is not None else (200 if chk.thorough else 60)
    scns = scenarios(chk.seed * 8191 + 17, n)
    cc.explore_and_validate(chk, pid, scns, n_pct, dfs, bound=2, label="random")
    chk.extra["random_scenarios"] = len(scns)
    if bind:
        from checks import chan_model
        chan_model.model_check(chk, pid, scns, n_traces=6 if chk.thorough else 4, mc_part=False, replay_part=False, label="random")
    return scns
