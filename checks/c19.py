"""C19 - Expect: 100-continue is answered correctly and the request is never lost.

Pipelines mixing expecting and plain requests, segmentations at message-part
granularity.  spec/Channel.tla (received / service / send_continue at
visible-operation granularity) is model-checked for InterimPlacement,
ResponsesInOrder and ClientNotLeftWaiting; executions of the real server under
the deterministic scheduler are validated step by step against it, and TLC
judges their observable traces with the monitor clauses P19_* of
spec/Pipeline.tla."""
from checks import chan_common as cc
from checks import chan_random
from checks import chan_model

LEVEL = "model_checking"


def scenarios(thorough):
    P = lambda k: {"k": k, "kind": "plain"}
    E = lambda k: {"k": k, "kind": "expect"}
    out = []
    for la in (0, 1, 2):
        out.append(cc.mk([E(1)], lookahead=la, split="headbody", waits=(1,), name="expect waits la=%d" % la))
        out.append(cc.mk([P(1), E(2)], lookahead=la, workers=2, split="joinheads", waits=(2,), name="plain+expect head same read, waits la=%d" % la))
        out.append(cc.mk([P(1), E(2)], lookahead=la, workers=2, split="headbody", waits=(2,), name="plain, expect head later, waits la=%d" % la))
        out.append(cc.mk([E(1), P(2)], lookahead=la, workers=2, split="one", name="expect complete + plain, one read la=%d" % la))
        out.append(cc.mk([P(1), P(2), E(3)], lookahead=la, workers=2, split="joinheads", waits=(3,), room=0, read_before_await=True,
                         apps={1: {"chunks": [60]}}, name="2plain+expect head, slow client la=%d" % la))
    for val in ("100-Continue", "100-CONTINUE"):
        Ev = lambda k: {"k": k, "kind": "expect", "expect_value": val}
        out.append(cc.mk([Ev(1)], lookahead=0, split="headbody", waits=(1,), name="expect %s waits" % val))
        out.append(cc.mk([P(1), Ev(2)], lookahead=1, workers=2, split="joinheads", waits=(2,), name="plain+expect %s head same read, waits" % val))
    for la in (0, 1):
        out.append(cc.mk([P(1), E(2)], lookahead=la, workers=1, split="joinheads", waits=(), body_in_two=True, name="plain+expect head same read, body sent in two pieces without waiting, la=%d" % la))
        out.append(cc.mk([E(1), E(2)], lookahead=la, workers=2, split="headbody", waits=(), body_in_two=True, name="two expecting requests, bodies in two pieces, client never waits, la=%d" % la))
    out.append(cc.mk([E(1), E(2)], lookahead=1, workers=2, split="headbody", waits=(1, 2), name="two expecting requests, both wait"))
    # the body has begun (its first byte travels with the head) but has not fully arrived when the request's turn comes
    for la in (0, 1):
        out.append(cc.mk([P(1), E(2)], lookahead=la, workers=1, split="joinheads", waits=(2,), part_with_head=True,
                         name="plain+expect head+first body byte in one read, waits la=%d" % la))
    out.append(cc.mk([E(1)], lookahead=0, split="joinheads", waits=(1,), part_with_head=True, name="expect head+first body byte, waits"))
    # an expecting request whose body is chunked (the expectation does not depend on how the body is framed)
    Ec = lambda k: {"k": k, "kind": "expect_chunked"}
    out.append(cc.mk([Ec(1)], lookahead=0, split="headbody", waits=(1,), name="expecting request with a chunked body, waits"))
    out.append(cc.mk([P(1), Ec(2)], lookahead=1, workers=2, split="joinheads", waits=(2,), name="plain+expecting head (chunked body) same read, waits la=1"))
    out.append(cc.mk([Ec(1), P(2)], lookahead=0, workers=1, split="one", name="expecting request with a chunked body, complete, + plain in one read"))
    # the end of one expecting request and the head of the next in the same read, both clients wait
    for la in (0, 1):
        out.append(cc.mk([E(1), E(2)], lookahead=la, workers=1, split="bodyhead", waits=(1, 2), name="two expecting requests, body of the first with the head of the second, both wait, la=%d" % la))
    out.append(cc.mk([E(1), E(2), P(3)], lookahead=1, workers=2, split="bodyhead", waits=(1, 2), name="two expecting requests then plain, bodies travel with the next head, both wait"))
    out.append(cc.mk([{"k": 1, "kind": "expect_nobody"}, P(2)], lookahead=0, split="each", name="body-less expecting request then plain"))
    out.append(cc.mk([{"k": 1, "kind": "expect_nobody"}], lookahead=0, name="body-less expecting request alone"))
    out.append(cc.mk([{"k": 1, "kind": "expect10"}], lookahead=0, split="headbody", name="HTTP/1.0 with Expect"))
    out.append(cc.mk([{"k": 1, "kind": "toolarge", "headers": []}], lookahead=0, name="refused framing"))
    out.append(cc.mk([P(1), {"k": 2, "kind": "expect", "headers": [("Transfer-Encoding", "gzip")]}], lookahead=0, split="joinheads", waits=(), name="plain + expecting request with refused framing"))
    return out


def run(chk, replay=None):
    scns = scenarios(chk.thorough)
    chan_model.model_check(chk, "C19", scns)
    n_pct, dfs = (800, 3000) if chk.thorough else (80, 400)
    cc.explore_and_validate(chk, "C19", scns, n_pct, dfs, bound=2, label="continue")
    chan_random.explore(chk, "C19")
    chk.rule = ("cases = schedules of the real server over %d pipelines mixing expecting and plain requests (waiting clients, head/body segmentation, lookahead 0..2); "
                "evaluations = distinct traces judged by TLC" % len(scns))
    chk.assumptions += ["a waiting client sends the body only after it has seen the interim response", "simulated kernel"]
