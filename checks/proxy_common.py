"""Shared by C15 / C16: case generation over the vocabulary published by
spec/Proxy.tla, execution on the real server (middleware installed by
server.py), validation by TLC."""
import itertools
import json
import random
import shutil

from wv import syncdrv, tlc, tv
from wv.core import MachineryFailure
from wv.par import pmap

META = ["REMOTE_ADDR", "REMOTE_HOST", "REMOTE_PORT", "SERVER_NAME", "SERVER_PORT", "HTTP_HOST", "wsgi.url_scheme"]
PROXY = ["HTTP_FORWARDED", "HTTP_X_FORWARDED_FOR", "HTTP_X_FORWARDED_HOST", "HTTP_X_FORWARDED_PROTO", "HTTP_X_FORWARDED_PORT", "HTTP_X_FORWARDED_BY"]
HDRNAME = {"xff": "X-Forwarded-For", "xfh": "X-Forwarded-Host", "xfproto": "X-Forwarded-Proto", "xfport": "X-Forwarded-Port", "fwd": "Forwarded"}
KIND = {"xff": "x-forwarded-for", "xfh": "x-forwarded-host", "xfproto": "x-forwarded-proto", "xfport": "x-forwarded-port", "fwd": "forwarded"}
TRUSTED = "10.0.0.1"

C15 = ["P15_untrusted_peer_request_served_normally", "P15_untrusted_headers_do_not_change_connection_metadata", "P15_untrusted_headers_cleared"]
C16 = ["P16_never_an_unhandled_exception_or_500", "P16_uninterpretable_header_yields_400", "P16_interpretable_headers_are_served",
       "P16_only_trusted_hops_and_kinds_affect_metadata", "P16_left_hops_and_untrusted_kinds_hidden_from_application",
       "P16_client_address_from_the_trusted_hop", "P16_host_from_the_trusted_hop", "P16_scheme_from_trusted_header", "P16_port_from_trusted_header"]


def vocabulary(chk):
    r = tlc.run("Proxy", "SPECIFICATION VocabSpec\nCONSTANTS Focus = {}\nINVARIANT PublishVocab\n", workers=1, deadlock=False)
    chk.add_tlc("GEN:Proxy vocabulary", r, "element vocabulary with classification")
    v = tlc.printed_json(r, "VOCAB")
    if not v:
        raise MachineryFailure("Proxy.tla did not publish its vocabulary\n" + r.out[-1500:])
    return v[0]


def run_request(srv, peer, headers):
    """one request on a fresh connection; returns [status, raised, env]"""
    seen = {}
    srv.app_seen = seen
    # (an IPv6 listener: the connection comes in through handle_accept, which may rewrite the peer address)
    conn = srv.connect(peer=(peer, 51000), via_accept=bool(getattr(srv, "via_accept", False)))
    req = b"GET /p HTTP/1.1\r\nHost: origin.example:8080\r\n" + b"".join(
        n.encode("latin-1") + b": " + v.encode("latin-1") + b"\r\n" for n, v in headers) + b"Connection: close\r\n\r\n"
    conn.feed(req)
    raised = bool(conn.exceptions or srv.errors)
    del srv.errors[:]
    status = 0
    if conn.wire.startswith(b"HTTP/1."):
        try:
            status = int(conn.wire[9:12])
        except ValueError:
            status = 0
    env = {k: str(v) for k, v in seen.items()}
    return {"status": status, "raised": raised, "env": env}


def make_server(cfg):
    holder = {}

    def app(environ, start_response):
        seen = holder["srv"].app_seen
        for k in META + PROXY:
            if k in environ:
                seen[k] = environ[k]
        start_response("200 OK", [("Content-Length", "2")])
        return [b"ok"]
    kw = {"clear_untrusted_proxy_headers": cfg["clear"]}
    if cfg["tp"] != "none":
        kw["trusted_proxy"] = TRUSTED if cfg["tp"] == "addr" else "*"
        kw["trusted_proxy_count"] = cfg["count"]
        kw["trusted_proxy_headers"] = set(cfg["kinds"])
    if cfg.get("log"):
        kw["log_untrusted_proxy_headers"] = True
    if cfg.get("v6"):
        import socket
        srv = syncdrv.SyncServer(app, _family=socket.AF_INET6, **kw)
        srv.via_accept = True
    else:
        srv = syncdrv.SyncServer(app, **kw)
    holder["srv"] = srv
    srv.app_seen = {}
    return srv


def raw_headers(vocab, hdr, by=None):
    out = []
    for k in ("xff", "xfh", "xfproto", "xfport", "fwd"):
        idx = hdr[k]
        if idx:
            out.append((HDRNAME[k], ", ".join(vocab[k][i - 1]["raw"] for i in idx)))
    if by:
        out.append(("X-Forwarded-By", by))
    return out


def run_group(args):
    """worker: one server configuration, a list of (peer, hdr) cases"""
    cfg, cases, vocab = args
    from wv.core import repo_on_path
    repo_on_path()
    srv = make_server(cfg)
    out = []
    try:
        for peer, hdr in cases:
            trusted = cfg["tp"] == "star" or (cfg["tp"] == "addr" and peer == TRUSTED)
            by = "203.0.113.77" if hdr.get("by") else None
            full = run_request(srv, peer, raw_headers(vocab, hdr, by))
            bare = run_request(srv, peer, [])
            cut_hdr = {}
            for k in ("xff", "xfh", "xfproto", "xfport", "fwd"):
                if KIND[k] in cfg["kinds"]:
                    cut_hdr[k] = hdr[k][-cfg["count"]:] if k in ("xff", "xfh", "fwd") else hdr[k]
                else:
                    cut_hdr[k] = hdr[k] if not cfg["clear"] else []
            cut = run_request(srv, peer, raw_headers(vocab, cut_hdr, by if ("x-forwarded-by" in cfg["kinds"] or not cfg["clear"]) else None)) if trusted else bare
            out.append({"cfg": {"trusted": trusted, "count": cfg["count"], "kinds": sorted(cfg["kinds"]), "clear": cfg["clear"]},
                        "hdr": {k: hdr[k] for k in ("xff", "xfh", "xfproto", "xfport", "fwd")}, "full": full, "bare": bare, "cut": cut,
                        "peer": peer, "tp": cfg["tp"]})
    finally:
        srv.close()
    return out


def lists(n, maxlen_full, rng, extra, maxlen=5):
    out = [[]]
    for L in range(1, maxlen_full + 1):
        out += [list(t) for t in itertools.product(range(1, n + 1), repeat=L)]
    for _ in range(extra):
        out.append([rng.randint(1, n) for _ in range(rng.randint(maxlen_full + 1, maxlen))])
    return out


def generate(chk, vocab, want_trusted):
    rng = random.Random(chk.seed + (1 if want_trusted else 2))
    n = {k: len(vocab[k]) for k in vocab}
    big = chk.thorough
    groups = []
    okfor, okhost = [1], [1]
    kindsets = [["x-forwarded-for"], ["x-forwarded-for", "x-forwarded-host"], ["x-forwarded-proto"], ["x-forwarded-host", "x-forwarded-port"],
                ["x-forwarded-for", "x-forwarded-host", "x-forwarded-proto", "x-forwarded-port", "x-forwarded-by"], ["forwarded"]]
    tps = ["addr", "star"] if want_trusted else ["addr", "none"]
    for tp in tps:
        for kinds in (kindsets if tp != "none" else [[]]):
            for count in ((1, 2, 3, 4) if tp != "none" else (1,)):
                for clear in ((True,) if want_trusted else (True, False)):
                    cfg = {"tp": tp, "count": count, "kinds": kinds, "clear": clear}
                    hdrs = []
                    base = {"xff": [], "xfh": [], "xfproto": [], "xfport": [], "fwd": [], "by": False}
                    def H(**kw):
                        h = dict(base)
                        h.update(kw)
                        return h
                    extra = 120 if big else 25
                    # vary one header kind at a time, the others absent / well-formed / hostile
                    for l in lists(n["xff"], 2 if big or count <= 2 else 1, rng, extra):
                        hdrs.append(H(xff=l))
                        if len(l) == 2:
                            hdrs.append(H(xff=l, xfh=[2], xfproto=[2], fwd=[2], by=True))
                    for l in lists(n["xfh"], 2 if big else 1, rng, extra // 2):
                        hdrs.append(H(xfh=l, xff=[1, 2]))
                        hdrs.append(H(xfh=l, xfport=[3]))
                    for i in range(1, n["xfproto"] + 1):
                        hdrs.append(H(xfproto=[i]))
                        hdrs.append(H(xfproto=[i], xfport=[2], xfh=[1]))
                    for i in range(1, n["xfport"] + 1):
                        hdrs.append(H(xfport=[i], xfh=[1]))
                        hdrs.append(H(xfport=[i], xfproto=[2]))
                    for l in lists(n["fwd"], 2 if big or count <= 2 else 1, rng, extra):
                        hdrs.append(H(fwd=l))
                        if len(l) == 2:
                            hdrs.append(H(fwd=l, xff=[1], xfproto=[5]))
                    if want_trusted:
                        peers = [TRUSTED] if tp == "addr" else [TRUSTED, "203.0.113.5"]
                    else:
                        peers = ["10.9.9.9", "10.0.0.10", "10.0.0", "110.0.0.1", "0.0.0.1"]
                    cases = []
                    for j, h in enumerate(hdrs):
                        cases.append((peers[j % len(peers)], h))
                        if not want_trusted and tp == "addr" and j % 7 == 0:
                            cases.append((TRUSTED, h))  # a request of the real proxy in between (state must not leak)
                    groups.append((cfg, cases, vocab))
                    if not want_trusted and tp == "addr" and clear and count in (1, 2):
                        # the same cases with untrusted headers logged (a warning per request must not change what is
                        # cleared), and on an IPv6 listener whose peers have addresses that contain, end in or map to the
                        # proxy's IPv4 address
                        some = cases[:: 3 if big else 9]
                        groups.append((dict(cfg, log=True), some, vocab))
                        v6peers = ["::" + TRUSTED, "::ffff:" + TRUSTED, "64:ff9b::" + TRUSTED, "2001:db8::1", "::1"]
                        groups.append((dict(cfg, v6=True), [(v6peers[j % len(v6peers)], h) for j, (_, h) in enumerate(some)], vocab))
    return groups


def execute(chk, pid, focus, want_trusted):
    vocab = vocabulary(chk)
    groups = generate(chk, vocab, want_trusted)
    results = pmap(run_group, groups)
    traces = []
    for res in results:
        for rec in res:
            if rec["cfg"]["trusted"] != want_trusted:
                continue
            traces.append({"id": len(traces), "cfg": {}, "ev": [rec]})
    consts = "CONSTANTS Focus = {%s}\n" % ", ".join('"%s"' % c for c in focus)
    rej, drift = tv.validate(chk, "Proxy", traces, consts, name="TV:Proxy %s" % pid, workers=8)
    for t in traces:
        rec = t["ev"][0]
        nhdr = sum(len(rec["hdr"][k]) for k in rec["hdr"])
        chk.count(1, (pid, t["id"]) if nhdr >= 2 else None)
    for i, (pos, clauses) in rej.items():
        rec = traces[int(i)]["ev"][0]
        raw = raw_headers(vocab, rec["hdr"])
        kinds_used = sorted(k for k in rec["hdr"] if rec["hdr"][k])
        elems = sorted({vocab[k][j - 1]["raw"] for k in rec["hdr"] for j in rec["hdr"][k] if vocab[k][j - 1]["cls"] != "ok"})
        chk.violation({"kind": "proxy", "clauses": sorted(clauses), "elements": elems[:3] if len(elems) <= 3 else ["(several)"]},
                      "peer %s tp=%s cfg=%s headers=%s -> status %s raised=%s env=%s ; violates %s" % (
                          rec["peer"], rec["tp"], rec["cfg"], raw, rec["full"]["status"], rec["full"]["raised"],
                          {k: rec["full"]["env"].get(k) for k in META + PROXY if k in rec["full"]["env"]}, sorted(clauses)),
                      replay={"case": rec})
    if traces:
        s = traces[len(traces) // 2]["ev"][0]
        chk.sample({"cfg": s["cfg"], "headers": raw_headers(vocab, s["hdr"]), "status": s["full"]["status"]})
    chk.extra["server_configurations"] = len(groups)
    return traces
