----------------------------- MODULE ParserOps -----------------------------
(* waitress.parser.HTTPRequestParser.received() transcribed: one request fed   *)
(* read by read.  The head phase (buffering in header_plus, the search for the  *)
(* blank line across read boundaries, the byte count against                    *)
(* max_request_header_size, the removal of leading empty lines) and the body    *)
(* phase (FixedStreamReceiver / ChunkedReceiver of ReceiverOps, the byte count  *)
(* against max_request_body_size) are transcribed; what parse_header makes of   *)
(* a complete head - a fault, or the declared length, or chunked - is an input  *)
(* `ph` of the step in which the head is completed (it is the subject of        *)
(* Framing.tla / Lex.tla, not of this module).                                  *)
EXTENDS ReceiverOps

P0 == [hp |-> <<>>, hbr |-> 0, bbr |-> 0, phase |-> "head", completed |-> FALSE, empty |-> FALSE,
       error |-> 0, hfin |-> FALSE, kind |-> "none", remain |-> 0, body |-> <<>>, chk |-> R0]

RECURSIVE StripLeadingCRLF(_)
StripLeadingCRLF(x) == IF Len(x) >= 2 /\ x[1] = 13 /\ x[2] = 10 THEN StripLeadingCRLF(Drop(x, 2)) ELSE x

(* FixedStreamReceiver.received *)
FixedFeed(p, data) ==
  IF p.remain < 1 THEN [p |-> p, consumed |-> 0, done |-> TRUE]
  ELSE IF p.remain <= Len(data)
          THEN [p |-> [p EXCEPT !.body = @ \o Take(data, p.remain), !.remain = 0], consumed |-> p.remain, done |-> TRUE]
          ELSE [p |-> [p EXCEPT !.body = @ \o data, !.remain = @ - Len(data)], consumed |-> Len(data), done |-> FALSE]

(* ph = [err |-> 0 / 400 / 501, cl |-> declared length (0 when none), chunked |-> BOOLEAN] for the head just completed *)
PFeed(p, data, cfg, ph) ==
  IF p.completed THEN [p |-> p, consumed |-> 0]
  ELSE IF p.phase = "head" THEN
    LET s == p.hp \o data
        idx == FindDouble(s)
        hbr == IF idx >= 0 THEN idx ELSE p.hbr + Len(data)
        consumed == IF idx >= 0 THEN Len(data) - (Len(s) - idx) ELSE Len(data)
    IN IF hbr >= cfg.maxh
          THEN [p |-> [p EXCEPT !.hbr = hbr, !.error = 431, !.completed = TRUE], consumed |-> consumed]
       ELSE IF idx < 0 THEN [p |-> [p EXCEPT !.hbr = hbr, !.hp = s], consumed |-> Len(data)]
       ELSE LET head == StripLeadingCRLF(Take(s, idx))
                p1 == [p EXCEPT !.hbr = hbr, !.hfin = TRUE]
            IN IF head = <<>> THEN [p |-> [p1 EXCEPT !.empty = TRUE, !.completed = TRUE], consumed |-> consumed]
               ELSE IF ph.err # 0 THEN [p |-> [p1 EXCEPT !.error = ph.err, !.completed = TRUE], consumed |-> consumed]
               ELSE IF ph.chunked THEN [p |-> [p1 EXCEPT !.phase = "body", !.kind = "chunked"], consumed |-> consumed]
               ELSE IF ph.cl > 0 THEN
                      (IF ph.cl >= cfg.maxb THEN [p |-> [p1 EXCEPT !.phase = "body", !.kind = "fixed", !.remain = ph.cl, !.error = 413, !.completed = TRUE], consumed |-> consumed]
                       ELSE [p |-> [p1 EXCEPT !.phase = "body", !.kind = "fixed", !.remain = ph.cl], consumed |-> consumed])
               ELSE [p |-> [p1 EXCEPT !.completed = TRUE], consumed |-> consumed]
  ELSE IF p.kind = "fixed" THEN
    LET f == FixedFeed(p, data)
        bbr == p.bbr + f.consumed
    IN IF bbr >= cfg.maxb THEN [p |-> [f.p EXCEPT !.bbr = bbr, !.error = 413, !.completed = TRUE], consumed |-> f.consumed]
       ELSE [p |-> [f.p EXCEPT !.bbr = bbr, !.completed = f.done], consumed |-> f.consumed]
  ELSE
    LET f == Feed(p.chk, data)
        bbr == p.bbr + f.consumed
    IN IF bbr >= cfg.maxb THEN [p |-> [p EXCEPT !.chk = f.r, !.bbr = bbr, !.error = 413, !.completed = TRUE], consumed |-> f.consumed]
       ELSE IF f.r.error # "" THEN [p |-> [p EXCEPT !.chk = f.r, !.bbr = bbr, !.error = 400, !.completed = TRUE], consumed |-> f.consumed]
       ELSE [p |-> [p EXCEPT !.chk = f.r, !.bbr = bbr, !.completed = f.r.completed], consumed |-> f.consumed]

(* HTTPChannel.received: what a call did not consume is offered again, until the request is complete *)
RECURSIVE FeedAll(_, _, _, _)
FeedAll(p, data, cfg, ph) ==
  LET f == PFeed(p, data, cfg, ph)
  IN IF f.p.completed \/ f.consumed >= Len(data) \/ f.consumed = 0 THEN f
     ELSE LET g == FeedAll(f.p, Drop(data, f.consumed), cfg, ph) IN [p |-> g.p, consumed |-> f.consumed + g.consumed]

POutcome(p) == IF p.error # 0 THEN <<"refused", p.error>>
               ELSE IF p.completed THEN <<"complete", IF p.empty THEN <<>> ELSE IF p.kind = "chunked" THEN p.chk.body ELSE p.body>>
               ELSE <<"incomplete">>
=============================================================================
