------------------------------ MODULE Pipeline ------------------------------
(* Property monitors for one server with several connections, over what a     *)
(* user can observe (DESIGN.md 3.7).  Alphabet (JSON records, field k):       *)
(*   app_start c r xk nx blen   the application was entered for request r of  *)
(*                              connection c (xk = X-K header seen, nx = number*)
(*                              of X-* fields seen, blen = body bytes read)    *)
(*   app_end   c r              the application iterable was closed            *)
(*   flag      c attr by        a close decision became visible                *)
(*   torn      c what by        a descriptor left the poll set / was closed    *)
(*   died      by               a thread ended with an exception               *)
(*   end       ...              final snapshot: lexed wire per connection etc. *)
(* cfg.conns[i].reqs[j] = [v11, expect, waits, refuse, rlen, blen] describes   *)
(* request j of connection i as the client sent it.                            *)
(* Clause names carry the property they belong to (P04_.. P05_.. P11_.. P12_.. *)
(* P13_.. P19_..); Focus selects the clauses a check is about.                 *)
EXTENDS Integers, Sequences, FiniteSets, TLC, Json, IOUtils

CONSTANT Focus

Traces == JsonDeserialize(IOEnv.WV_TRACES)
VARIABLES tid, l, st, verdict

ConnIdx(c) == CASE c = "c1" -> 1 [] c = "c2" -> 2 [] c = "c3" -> 3 [] OTHER -> 0

TInit(cfg) ==
  [cfg |-> cfg,
   started |-> [i \in 1..Len(cfg.conns) |-> 0],
   running |-> [i \in 1..Len(cfg.conns) |-> FALSE],
   ended   |-> [i \in 1..Len(cfg.conns) |-> 0],
   files   |-> [i \in 1..Len(cfg.conns) |-> {}],
   decided |-> [i \in 1..Len(cfg.conns) |-> FALSE],
   hard |-> [i \in 1..Len(cfg.conns) |-> FALSE],        \* a send on this connection failed with an error reported to the caller
   hardWire |-> [i \in 1..Len(cfg.conns) |-> -1],       \* ... and this many bytes had been sent by then
   tornBy  |-> [i \in 1..Len(cfg.conns) |-> <<>>],
   done |-> FALSE]

Cl(cond, name) == IF cond THEN {} ELSE {name}

Req(s, i, j) == s.cfg.conns[i].reqs[j]
NReq(s, i) == Len(s.cfg.conns[i].reqs)

Finals(resp) == SelectSeq(resp, LAMBDA r : ~r.interim)

(* number of interim responses that precede the j-th final response *)
RECURSIVE InterimsBefore(_, _, _, _)
InterimsBefore(resp, j, pos, seen) ==
  IF pos > Len(resp) THEN 0
  ELSE IF resp[pos].interim
          THEN (IF seen = j - 1 THEN 1 ELSE 0) + InterimsBefore(resp, j, pos + 1, seen)
          ELSE IF seen + 1 >= j THEN 0 ELSE InterimsBefore(resp, j, pos + 1, seen + 1)

FirstClosing(F) == IF \E i \in 1..Len(F) : F[i].close \/ F[i].status >= 400
                      THEN CHOOSE i \in 1..Len(F) : (F[i].close \/ F[i].status >= 400)
                                   /\ \A k \in 1..(i - 1) : ~(F[k].close \/ F[k].status >= 400)
                      ELSE 0

EndConn(s, e, cn) ==
  LET i == ConnIdx(cn.c)
      F == Finals(cn.resp)
      n == Len(F)
      reqs == s.cfg.conns[i].reqs
      quiet == e.status = "quiescent" \/ e.status = "done"
      open == cn.accepted /\ ~cn.closed
      fc == FirstClosing(F)
  IN
     Cl(cn.wire_error = "" /\ cn.garbage = 0, "P04_wire_is_a_sequence_of_well_formed_responses")
  \cup Cl(~cn.cut_head \/ cn.closed \/ ~(s.cfg.infinite /\ quiet), "P04_only_the_last_response_may_be_cut")
  \cup Cl(n <= Len(reqs), "P04_at_most_one_response_per_request")
  \cup Cl(\A j \in 1..n : j <= Len(reqs) =>
            IF reqs[j].refuse THEN F[j].status >= 400
            ELSE F[j].status >= 500 \/ F[j].r = j, "P04_responses_in_request_order")
  \cup Cl(\A j \in 1..n : (j <= Len(reqs) /\ ~reqs[j].refuse /\ F[j].status < 400 /\ F[j].complete /\ reqs[j].rlen >= 0) =>
            (F[j].blen = reqs[j].rlen /\ (reqs[j].rlen = 0 \/ F[j].bodyc = reqs[j].mark)), "P04_response_body_intact")
  \cup Cl(n >= s.ended[i] - (IF cn.closed THEN s.ended[i] ELSE 0) , "P04_every_finished_request_has_its_response")
  \cup Cl(\A j \in 1..n : j < n => F[j].complete, "P04_only_the_last_response_may_be_cut")
  \* ---- C05: nothing pending at quiescence with an infinite poll timeout and a reading client
  \cup Cl(e.status # "budget", "P05_no_livelock")
  \cup Cl(~(s.cfg.infinite /\ quiet /\ open) \/ cn.total = 0, "P05_no_undelivered_output_at_quiescence")
  \cup Cl(~(s.cfg.infinite /\ quiet /\ open) \/ (cn.nreq = 0 /\ e.qlen = 0), "P05_no_unserviced_request_at_quiescence")
  \cup Cl(~(s.cfg.infinite /\ quiet /\ open) \/ (~cn.will_close /\ ~cn.cwf), "P05_close_decision_carried_out")
  \cup Cl(~(s.cfg.infinite /\ quiet /\ open) \/ cn.inbox = 0, "P05_input_not_left_unread")
  \cup Cl(~(s.cfg.infinite /\ quiet /\ open /\ cn.client_done) \/ n = s.cfg.conns[i].ncomplete \/ (n > 0 /\ ~F[n].complete), "P05_every_complete_request_answered")
  \cup Cl(~(s.cfg.infinite /\ quiet /\ cn.accepted /\ cn.peer_closed) \/ cn.closed, "P05_dead_connection_closed")
  \cup Cl(~(s.cfg.infinite /\ quiet) \/ cn.waiting = 0, "P05_no_producer_waits_at_quiescence")
  \* ---- C11
  \cup Cl(fc = 0 \/ s.started[i] <= fc, "P11_nothing_executed_after_a_closing_response")
  \cup Cl(fc = 0 \/ n <= fc, "P11_no_response_after_a_closing_response")
  \cup Cl(~(quiet /\ fc # 0 /\ F[fc].complete /\ s.cfg.infinite) \/ cn.closed, "P11_closing_response_is_followed_by_close")
  \* ---- C09 (concurrent part): at rest, every application iterable that was started has been closed
  \cup Cl(~quiet \/ s.ended[i] = s.started[i], "P09_every_started_iterable_is_closed")
  \* (a file handed to wsgi.file_wrapper: the application's call has ended, the file is the server's to close)
  \cup Cl(~quiet \/ s.files[i] = {}, "P09_every_started_iterable_is_closed")
  \* ---- C12
  \* (the interim responses the server itself inserts are not output accepted from an application: 25 bytes each)
  \cup Cl(cn.maxpending <= s.cfg.hwm + cn.maxwrite + 25 * Cardinality({j \in 1..Len(reqs) : reqs[j].expect}),
         "P12_pending_output_bounded_by_watermark_plus_one_write")
  \cup Cl(~quiet \/ cn.waiting = 0, "P12_paused_producer_released")
  \* ---- C13
  \cup Cl(~cn.closed \/ (cn.nclose = 1 /\ ~cn.in_map), "P13_torn_down_exactly_once")
  \cup Cl(~cn.closed \/ cn.bufs_closed, "P13_buffers_released")
  \* (... and nothing is counted as pending on a connection that is gone: a producer must not find a backlog to wait for)
  \cup Cl(~cn.closed \/ cn.total = 0, "P13_buffers_released")
  \cup Cl(cn.closed \/ ~cn.accepted \/ cn.in_map, "P13_open_connection_stays_polled")
  \cup Cl(~(quiet /\ cn.accepted /\ ~s.cfg.conns[i].faulty /\ cn.client_done /\ s.cfg.infinite) \/ cn.closed \/ n = s.cfg.conns[i].ncomplete, "P13_other_connections_undisturbed")
  \cup Cl(~(quiet /\ s.hard[i]) \/ cn.closed, "P13_connection_with_a_send_error_is_torn_down")
  \* (the code flushes once more before it closes: what is sent after the error is not constrained)
  \* ---- C19
  \cup Cl(\A j \in 1..(n + 1) : InterimsBefore(cn.resp, j, 1, 0) <= 1, "P19_at_most_one_interim_per_request")
  \cup Cl(\A j \in 1..(n + 1) : InterimsBefore(cn.resp, j, 1, 0) = 0 \/
             (j <= Len(reqs) /\ reqs[j].expect /\ reqs[j].v11), "P19_interim_only_for_expecting_http11_request")
  \cup Cl(~quiet \/ cn.client_done \/ cn.closed, "P19_waiting_client_is_never_left_waiting")

TFailAll(s, e) ==
  CASE e.k = "app_start" ->
         LET i == ConnIdx(e.c) IN
         IF i = 0 \/ i > Len(s.cfg.conns) THEN {"P04_request_of_unknown_connection"}
         ELSE Cl(e.r = s.started[i] + 1, "P04_executed_in_arrival_order_exactly_once")
         \cup Cl(~s.running[i], "P04_one_request_at_a_time")
         \cup Cl(~s.decided[i], "P11_no_execution_after_close_decision")
         \* by the input alone: a Connection: close / HTTP/1.0 / refused request, a response that cannot be delimited
         \* or that the application abandons - whatever was buffered behind it is never executed
         \cup Cl(\A j \in 1..(e.r - 1) : j > NReq(s, i) \/ ~Req(s, i, j).mustclose, "P11_nothing_executed_after_an_exchange_that_must_close")
         \cup Cl(e.r < 1 \/ e.r > NReq(s, i) \/ ~Req(s, i, e.r).refuse, "P06_refused_request_never_reaches_application")
         \cup Cl(e.r < 1 \/ e.r > NReq(s, i) \/ (e.xk = ToString(e.r) /\ e.nx = 1), "P19_request_carries_only_its_own_fields")
         \cup Cl(e.r < 1 \/ e.r > NReq(s, i) \/ e.blen = Req(s, i, e.r).blen, "P19_request_body_intact")
         \cup Cl(e.r < 1 \/ e.r > NReq(s, i) \/ e.expect = "" \/ Req(s, i, e.r).expect, "P19_request_carries_only_its_own_fields")
    [] e.k = "app_end" ->
         LET i == ConnIdx(e.c) IN
         IF i = 0 \/ i > Len(s.cfg.conns) THEN {} ELSE Cl(s.running[i] /\ e.r = s.started[i], "P09_iterable_closed_exactly_once")
    \* (closing a file twice is harmless - handle_close may run twice in one handle_write: not constrained)
    [] e.k = "torn" ->
         LET i == ConnIdx(e.c) IN
         (IF i = 0 THEN Cl(~(e.c \in {"L", "T"}), "P13_listener_and_trigger_survive")
          ELSE Cl(e.by = "io", "P13_only_the_io_thread_tears_down")
               \cup Cl(~(e.what \in {s.tornBy[i][k] : k \in 1..Len(s.tornBy[i])}), "P13_torn_down_exactly_once"))
    [] e.k = "died" -> {"P13_no_thread_dies"}
    [] e.k = "end" ->
         UNION {EndConn(s, e, e.conns[x]) : x \in 1..Len(e.conns)}
         \cup Cl(e.listener_open /\ e.trigger_open, "P13_listener_and_trigger_survive")
         \cup Cl(e.io_alive, "P13_io_loop_alive")
         \cup Cl(e.workers_alive = e.workers, "P13_workers_alive")
    [] OTHER -> {}

TFail(s, e) == TFailAll(s, e) \cap Focus
TDrift(s, e) == {}

TUpd(s, e) ==
  CASE e.k = "app_start" /\ ConnIdx(e.c) \in 1..Len(s.cfg.conns) ->
         [s EXCEPT !.started[ConnIdx(e.c)] = @ + 1, !.running[ConnIdx(e.c)] = TRUE]
    [] e.k = "app_end" /\ ConnIdx(e.c) \in 1..Len(s.cfg.conns) ->
         [s EXCEPT !.running[ConnIdx(e.c)] = FALSE, !.ended[ConnIdx(e.c)] = @ + 1]
    [] e.k = "file_open" /\ ConnIdx(e.c) \in 1..Len(s.cfg.conns) ->
         [s EXCEPT !.files[ConnIdx(e.c)] = @ \cup {e.r}]
    [] e.k = "file_closed" /\ ConnIdx(e.c) \in 1..Len(s.cfg.conns) ->
         [s EXCEPT !.files[ConnIdx(e.c)] = @ \ {e.r}]
    [] e.k = "flag" /\ ConnIdx(e.c) \in 1..Len(s.cfg.conns) ->
         [s EXCEPT !.decided[ConnIdx(e.c)] = TRUE]
    \* a send error reported to the caller is a client fault: from here on the connection is to be closed (C11)
    [] e.k = "fault" /\ e.hard /\ ConnIdx(e.c) \in 1..Len(s.cfg.conns) ->
         [s EXCEPT !.decided[ConnIdx(e.c)] = TRUE, !.hard[ConnIdx(e.c)] = TRUE,
                   !.hardWire[ConnIdx(e.c)] = IF @ = -1 THEN e.wire ELSE @]
    [] e.k = "torn" /\ ConnIdx(e.c) \in 1..Len(s.cfg.conns) ->
         [s EXCEPT !.tornBy[ConnIdx(e.c)] = Append(@, e.what)]
    [] e.k = "end" -> [s EXCEPT !.done = TRUE]
    [] OTHER -> s

TFinal(s) == IF s.done THEN {} ELSE {"M_trace_ends_with_snapshot"}

TB == INSTANCE TraceBatch WITH InitSt <- TInit, Fail <- TFail, Drift <- TDrift, Upd <- TUpd, Final <- TFinal
TraceSpec == TB!Spec
=============================================================================
