------------------------------- MODULE Adjust -------------------------------
(* Configuration (C20): the documented option table, the exclusion rules and  *)
(* the documented casts of values.  TLC                                       *)
(*  - enumerates every combination of the mutually exclusive option groups,   *)
(*    proxy-trust options, unknown names/kinds and socket-list kinds and      *)
(*    emits, for each, whether start-up must refuse it (replayed on the real  *)
(*    Adjustments);                                                           *)
(*  - emits every (option, raw value) pair of the cast table with the value   *)
(*    the setting must end up with in BOTH the keyword and the CLI form;      *)
(*  - compares the option table with the three tables extracted from the      *)
(*    code, docs/arguments.rst and the runner help text (constants Code*,     *)
(*    Doc*, Help* supplied by a generated module).                            *)
EXTENDS Integers, Sequences, FiniteSets, TLC, Json

CONSTANTS CodeParams,   \* set of <<name, type>> extracted from Adjustments._params
          DocNames,     \* option names documented in docs/arguments.rst
          HelpNames     \* option names (underscored) in runner.HELP

Opt(n, t) == <<n, t>>
Options == {
  Opt("host", "str"), Opt("port", "int"), Opt("listen", "list"), Opt("server_name", "str"),
  Opt("ipv4", "bool"), Opt("ipv6", "bool"), Opt("unix_socket", "str"), Opt("unix_socket_perms", "octal"),
  Opt("sockets", "sockets"), Opt("threads", "int"), Opt("trusted_proxy", "str_or_none"),
  Opt("trusted_proxy_count", "int"), Opt("trusted_proxy_headers", "set"),
  Opt("log_untrusted_proxy_headers", "bool"), Opt("clear_untrusted_proxy_headers", "bool"),
  Opt("url_scheme", "str"), Opt("ident", "str_or_none"), Opt("backlog", "int"), Opt("recv_bytes", "int"),
  Opt("send_bytes", "int"), Opt("outbuf_overflow", "int"), Opt("outbuf_high_watermark", "int"),
  Opt("inbuf_overflow", "int"), Opt("connection_limit", "int"), Opt("cleanup_interval", "int"),
  Opt("channel_timeout", "int"), Opt("log_socket_errors", "bool"), Opt("max_request_header_size", "int"),
  Opt("max_request_body_size", "int"), Opt("expose_tracebacks", "bool"), Opt("asyncore_loop_timeout", "int"),
  Opt("asyncore_use_poll", "bool"), Opt("url_prefix", "slashstr"), Opt("channel_request_lookahead", "int") }

Names(S) == {x[1] : x \in S}
KeywordOnly == {"sockets"}       \* a list of socket objects cannot be spelled on a command line

ImplementedEqualsSpec == CodeParams = Options
DocumentedEqualsSpec == DocNames = Names(Options)
HelpEqualsSpec == HelpNames = Names(Options) \ KeywordOnly

-----------------------------------------------------------------------------
(* exclusion rules *)
Kinds == {"forwarded", "x-forwarded-for", "x-forwarded-host", "x-forwarded-proto", "x-forwarded-port", "x-forwarded-by"}
Canon(k) == CASE k = "Forwarded" -> "forwarded" [] k = "X-Forwarded-For" -> "x-forwarded-for"
              [] k = "X-FORWARDED-PROTO" -> "x-forwarded-proto" [] OTHER -> k
HeaderSets == { {}, {"forwarded"}, {"x-forwarded-for"}, {"x-forwarded-for", "x-forwarded-proto", "x-forwarded-host", "x-forwarded-port", "x-forwarded-by"},
                {"forwarded", "x-forwarded-for"}, {"Forwarded", "X-Forwarded-For"}, {"Forwarded"}, {"forwarded", "X-FORWARDED-PROTO"},
                {"bogus"}, {"x-forwarded-for", "x-forwarded"}, {"forwarded", "x-forwarded-by"} }

Space == [present : SUBSET {"listen", "host", "port", "sockets", "unix_socket"},
          tp : {"none", "addr", "star", "empty", "null"},      \* "empty" / "null": trusted_proxy given as '' / None - both mean no trusted proxy
          tpcount : {"unset", "set"},
          tph : HeaderSets,
          unknown : BOOLEAN,
          socks : {"empty", "inet", "inet6", "unix", "mixed", "dgram", "two_inet", "seqpacket", "raw_like"}]

Sensible(c) == ("sockets" \in c.present) \/ c.socks = "empty"

Refused(c) ==
  LET p == c.present
      hp == {"host", "port"} \cap p # {}
      kinds == {Canon(k) : k \in c.tph}
  IN \/ "listen" \in p /\ hp
     \/ "listen" \in p /\ "sockets" \in p
     \/ "sockets" \in p /\ hp
     \/ "sockets" \in p /\ "unix_socket" \in p
     \/ "unix_socket" \in p /\ hp
     \/ "unix_socket" \in p /\ "listen" \in p
     \/ c.tpcount = "set" /\ c.tp \in {"none", "empty", "null"}
     \/ c.tph # {} /\ c.tp \in {"none", "empty", "null"}
     \/ kinds \ Kinds # {}
     \/ "forwarded" \in kinds /\ kinds \ {"forwarded"} # {}
     \/ c.unknown
     \/ c.socks \in {"mixed", "dgram", "seqpacket", "raw_like"}      \* only stream sockets of one family

-----------------------------------------------------------------------------
(* documented casts: <<option, raw text, expected setting as JSON text>>      *)
BoolOpts == {x[1] : x \in {o \in Options : o[2] = "bool"}}
IntOpts == {x[1] : x \in {o \in Options : o[2] = "int"}} \ {"port", "trusted_proxy_count"}
Truthy == {"t", "true", "y", "yes", "on", "1", "True", "TRUE", "Yes", " on ", "On", "T"}
Falsy == {"f", "false", "n", "no", "off", "0", "False", "", "2", "enabled", "None"}
Casts ==
       {<<o, r, "true">> : o \in BoolOpts, r \in Truthy}
  \cup {<<o, r, "false">> : o \in BoolOpts, r \in Falsy}
  \cup {<<o, "--flag", "true">> : o \in BoolOpts} \cup {<<o, "--no-flag", "false">> : o \in BoolOpts}
  \cup {<<o, r, r>> : o \in IntOpts, r \in {"0", "1", "17", "65536"}}
  \cup {<<"unix_socket_perms", "600", "384">>, <<"unix_socket_perms", "0o600", "384">>, <<"unix_socket_perms", "777", "511">>, <<"unix_socket_perms", "0", "0">>}
  \cup {<<"url_prefix", "/foo", "\"/foo\"">>, <<"url_prefix", "foo", "\"/foo\"">>, <<"url_prefix", "//foo//", "\"/foo\"">>,
        <<"url_prefix", "/foo/bar/", "\"/foo/bar\"">>, <<"url_prefix", "", "\"\"">>, <<"url_prefix", " /x ", "\"/x\"">>}
  \cup {<<"ident", "", "null">>, <<"ident", "srv", "\"srv\"">>, <<"ident", "a b", "\"a b\"">>}
  \cup {<<"trusted_proxy", "", "null">>, <<"trusted_proxy", "10.0.0.1", "\"10.0.0.1\"">>, <<"trusted_proxy", "*", "\"*\"">>}
  \cup {<<"url_scheme", "https", "\"https\"">>, <<"url_scheme", "", "\"\"">>, <<"server_name", "example.org", "\"example.org\"">>,
        <<"server_name", "", "\"\"">>, <<"host", "127.0.0.1", "\"127.0.0.1\"">>, <<"port", "8081", "8081">>, <<"unix_socket", "/tmp/wv.sock", "\"/tmp/wv.sock\"">>}
  \cup {<<"trusted_proxy_count", "2", "2">>, <<"trusted_proxy_count", "1", "1">>}
  \cup {<<"trusted_proxy_headers", "x-forwarded-for", "[\"x-forwarded-for\"]">>,
        <<"trusted_proxy_headers", "x-forwarded-for x-forwarded-proto", "[\"x-forwarded-for\", \"x-forwarded-proto\"]">>,
        <<"trusted_proxy_headers", "x-forwarded-for\nx-forwarded-proto", "[\"x-forwarded-for\", \"x-forwarded-proto\"]">>,
        <<"trusted_proxy_headers", "Forwarded", "[\"forwarded\"]">>,
        (* any run of white space separates list items; leading / trailing white space is ignored *)
        <<"trusted_proxy_headers", "x-forwarded-for  x-forwarded-proto", "[\"x-forwarded-for\", \"x-forwarded-proto\"]">>,
        <<"trusted_proxy_headers", "x-forwarded-for\tx-forwarded-proto", "[\"x-forwarded-for\", \"x-forwarded-proto\"]">>,
        <<"trusted_proxy_headers", " x-forwarded-for ", "[\"x-forwarded-for\"]">>,
        <<"trusted_proxy_headers", "x-forwarded-for \n x-forwarded-proto", "[\"x-forwarded-for\", \"x-forwarded-proto\"]">>}
  \cup {<<"listen", "127.0.0.1:8081", "same">>, <<"listen", "127.0.0.1:8081 127.0.0.1:8082", "same">>,
        <<"listen", "127.0.0.1:8081\n127.0.0.1:8082", "same">>, <<"listen", "127.0.0.1:8081  127.0.0.1:8082", "same">>,
        <<"listen", "127.0.0.1:8081\t127.0.0.1:8082 ", "same">>}

-----------------------------------------------------------------------------
VARIABLES phase, item
vars == <<phase, item>>
Init == \/ phase = "config" /\ item \in {c \in Space : Sensible(c)}
        \/ phase = "cast" /\ item \in Casts
Emit == /\ phase \in {"config", "cast"}
        /\ phase' = "done"
        /\ item' = item
        /\ IF phase = "config"
              THEN PrintT(<<"CFG", ToJson([c |-> [present |-> item.present, tp |-> item.tp, tpcount |-> item.tpcount,
                                                  tph |-> item.tph, unknown |-> item.unknown, socks |-> item.socks],
                                            refused |-> Refused(item)])>>)
              ELSE PrintT(<<"CAST", ToJson([opt |-> item[1], raw |-> item[2], want |-> item[3]])>>)
Spec == Init /\ [][Emit]_vars

(* stated as invariants (phase is mentioned only to make them state-level) *)
TableImplemented == phase # "" => ImplementedEqualsSpec
TableDocumented == phase # "" => DocumentedEqualsSpec
TableInHelp == phase # "" => HelpEqualsSpec
=============================================================================
