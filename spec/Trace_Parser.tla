---------------------------- MODULE Trace_Parser ----------------------------
(* Binding of ParserOps to waitress.parser.HTTPRequestParser: a trace is one    *)
(* request cut into reads; event i = the i-th piece with the parser's           *)
(* attributes after received(piece) and the value it returned.                  *)
EXTENDS ParserOps, Json, IOUtils

Traces == JsonDeserialize(IOEnv.WV_TRACES)
VARIABLES tid, l, st, verdict

Cl(c, name) == IF c THEN {} ELSE {name}
TInit(cfg) == [p |-> P0, cfg |-> cfg]
Step(s, e) == PFeed(s.p, e.piece, s.cfg.lim, s.cfg.ph)
TFail(s, e) ==
  LET f == Step(s, e) IN
       Cl(f.consumed = e.consumed, "M_consumed_differs")
  \cup Cl(f.p.completed = e.completed, "M_completed_differs")
  \cup Cl(f.p.error = e.error, "M_error_differs")
  \cup Cl(f.p.hbr = e.hbr, "M_header_bytes_received_differs")
  \cup Cl(f.p.bbr = e.bbr, "M_body_bytes_received_differs")
  \cup Cl(f.p.hfin = e.hfin, "M_headers_finished_differs")
  \cup Cl(f.p.empty = e.empty, "M_empty_differs")
  \cup Cl(f.p.completed \/ f.p.phase # "head" \/ f.p.hp = e.hp, "M_header_plus_differs")
  \cup Cl(~(f.p.completed /\ f.p.error = 0 /\ ~f.p.empty) \/ (IF f.p.kind = "chunked" THEN f.p.chk.body ELSE f.p.body) = e.body, "M_body_differs")
TDrift(s, e) == {}
TUpd(s, e) == [s EXCEPT !.p = Step(s, e).p]
TFinal(s) == {}
TB == INSTANCE TraceBatch WITH InitSt <- TInit, Fail <- TFail, Drift <- TDrift, Upd <- TUpd, Final <- TFinal
TraceSpec == TB!Spec
=============================================================================
