------------------------------ MODULE ROBuffer ------------------------------
EXTENDS ROBufferOps
CONSTANTS MaxF, Sizes
VARIABLES F, seekable, r, p0
vars == <<F, seekable, r, p0>>

Init == /\ F \in 0..MaxF /\ seekable \in BOOLEAN
        /\ p0 \in 0..F /\ r = RNew(p0)

Next == \/ /\ r.prepared = -1
           /\ \E s \in Sizes \cup {-1} : r' = RPrepare(r, F, seekable, s)
           /\ UNCHANGED <<F, seekable, p0>>
        \/ /\ r.prepared >= 0
           /\ \/ \E n \in Sizes \cup {-1} : \E sk \in BOOLEAN : r' = RGet(r, F, n, sk).r
              \/ \E n \in Sizes : n <= r.remain /\ r' = RSkip(r, n)
           /\ UNCHANGED <<F, seekable, p0>>

Spec == Init /\ [][Next]_vars

NeverMoreThanPrepared == r.prepared >= 0 => r.yielded <= r.prepared /\ r.yielded + r.remain = r.prepared
PositionConsistent == r.pos = p0 + r.yielded /\ r.pos <= F
PeekInBounds == r.prepared >= 0 =>
                  \A n \in Sizes \cup {-1} : LET g == RGet(r, F, n, FALSE)
                                              IN g.hi - g.lo <= r.remain /\ g.lo = r.pos
=============================================================================
