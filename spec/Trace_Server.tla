---------------------------- MODULE Trace_Server ----------------------------
(* Validation of histories executed on real BaseWSGIServer objects sharing a  *)
(* socket map, under a virtual clock.  cfg = [nl, limit, timeout, cleanup];   *)
(* event = [k, c, l, dt, snap] with snap = what the harness reads from the    *)
(* real objects after the loop has settled: now, map (len of the socket map), *)
(* over, backlog, ch[c] = [st, busy, pend, wc, room, idle].                   *)
(* P18_* = property C18 on the snapshots; M_* = the step is the step of       *)
(* ServerOps.tla with exactly that projected post-state.                      *)
EXTENDS ServerOps, Json, IOUtils

CONSTANT Focus
Traces == JsonDeserialize(IOEnv.WV_TRACES)
VARIABLES tid, l, st, verdict

Cl(cond, name) == IF cond THEN {} ELSE {name}
TInit(cfg) == [cfg |-> cfg, m |-> S0(cfg.nl, cfg.limit, cfg.timeout, cfg.cleanup), synced |-> TRUE, prev |-> <<>>]

Proj(m) == [now |-> m.now, map |-> MapSize(m), over |-> m.over, backlog |-> [i \in 1..m.nl |-> Len(m.backlog[i])],
            ch |-> [c \in Conns |-> IF m.ch[c].st = "open" THEN [st |-> "open", busy |-> m.ch[c].busy, pend |-> m.ch[c].pend, wc |-> m.ch[c].wc]
                                     ELSE [st |-> m.ch[c].st, busy |-> FALSE, pend |-> FALSE, wc |-> FALSE]]]
SnapProj(sn) == [now |-> sn.now, map |-> sn.map, over |-> sn.over, backlog |-> sn.backlog,
                 ch |-> [c \in Conns |-> IF sn.ch[c].st = "open" THEN [st |-> "open", busy |-> sn.ch[c].busy, pend |-> sn.ch[c].pend, wc |-> sn.ch[c].wc]
                                          ELSE [st |-> sn.ch[c].st, busy |-> FALSE, pend |-> FALSE, wc |-> FALSE]]]

TDrift(s, e) == IF s.synced /\ (~Enabled(s.m, e) \/ Proj(Step(s.m, e)) # SnapProj(e.snap)) THEN {"M_step_of_ServerOps_with_recorded_post_state"} ELSE {}

TFail(s, e) ==
  LET sn == e.snap cfg == s.cfg IN
     Cl(sn.map <= cfg.limit + (cfg.nl - 1), "P18_descriptors_never_exceed_connection_limit")
  \cup Cl(\A i \in 1..cfg.nl : sn.backlog[i] = 0 \/ sn.map >= cfg.limit, "P18_accepting_resumes_below_the_limit")
  \cup Cl(\A c \in Conns : ~(sn.ch[c].st = "open" /\ ~sn.ch[c].busy /\ sn.ch[c].room) \/ sn.now <= sn.ch[c].idle + cfg.timeout + cfg.cleanup + 2,
          "P18_idle_connection_reaped_in_time")
  \cup Cl(\A c \in Conns : ~(sn.ch[c].st = "open" /\ ~sn.ch[c].busy /\ ~sn.ch[c].room) \/ sn.now <= sn.ch[c].idle + cfg.timeout + cfg.cleanup + 2,
          "P18_idle_connection_with_stalled_peer_reaped_in_time")
  \cup Cl(s.prev = <<>> \/ \A c \in Conns : ~(s.prev[1].ch[c].st = "open" /\ s.prev[1].ch[c].busy /\ ~(e.k = "appFinishes" /\ e.c = c)) \/ sn.ch[c].st = "open",
          "P18_busy_connection_never_reaped")

TUpd(s, e) == LET ok == s.synced /\ TDrift(s, e) = {} IN
              [s EXCEPT !.m = IF ok THEN Step(s.m, e) ELSE s.m, !.synced = ok, !.prev = <<e.snap>>]
TFinal(s) == {}
TFailF(s, e) == TFail(s, e) \cap Focus
TB == INSTANCE TraceBatch WITH InitSt <- TInit, Fail <- TFailF, Drift <- TDrift, Upd <- TUpd, Final <- TFinal
TraceSpec == TB!Spec
=============================================================================
