----------------------------- MODULE Dispatcher -----------------------------
(* Model checking of the worker pool (DispatcherOps.tla): every interleaving  *)
(* of the handler threads with environment threads that submit tasks, resize  *)
(* the pool and shut it down.  Env[e] is the script of environment thread e:  *)
(* a sequence of [op, arg] with op in {"submit","resize","shutdown"}.         *)
EXTENDS DispatcherOps

CONSTANT Env

VARIABLES s, epc
vars == <<s, epc>>

Init == s = S0 /\ epc = [e \in DOMAIN Env |-> 1]

WStep(w) == /\ WorkerEnabled(s, w)
            /\ s' = WorkerStep(s, w)
            /\ UNCHANGED epc

Advance(e) == epc' = [epc EXCEPT ![e] = @ + 1]

Submit(e) == /\ epc[e] <= Len(Env[e]) /\ Env[e][epc[e]].op = "submit"
             /\ s' = AddTask(s, Env[e][epc[e]].arg) /\ Advance(e)

Resize(e) == /\ epc[e] <= Len(Env[e]) /\ Env[e][epc[e]].op = "resize"
             /\ s' = SetCount(s, Env[e][epc[e]].arg) /\ Advance(e)

ShutdownStart(e) == /\ epc[e] <= Len(Env[e]) /\ Env[e][epc[e]].op = "shutdown"
                    /\ s.sd.pc = "none"
                    /\ s' = SDStart(s, Env[e][epc[e]].arg = 1) /\ UNCHANGED epc

ShutdownLoop(e) == /\ epc[e] <= Len(Env[e]) /\ Env[e][epc[e]].op = "shutdown"
                   /\ s.sd.pc \in {"enter", "woken"}
                   /\ s' = SDLoop(s)
                   /\ IF s'.sd.pc = "done" THEN Advance(e) ELSE UNCHANGED epc

ShutdownExpire(e) == /\ epc[e] <= Len(Env[e]) /\ Env[e][epc[e]].op = "shutdown"
                     /\ s.sd.pc \in {"wait", "woken", "enter"} /\ s.threads # {}
                     /\ s' = SDExpire(s) /\ Advance(e)

Next == \/ \E w \in Workers : WStep(w)
        \/ \E e \in DOMAIN Env : Submit(e) \/ Resize(e) \/ ShutdownStart(e) \/ ShutdownLoop(e) \/ ShutdownExpire(e)

Spec == Init /\ [][Next]_vars
FairSpec == Spec /\ WF_vars(Next)

Quiescent == Idle(s) /\ \A e \in DOMAIN Env : epc[e] > Len(Env[e])

ExactlyOnceInv == PExactlyOnce(s)
AccountedInv == PAccounted(s)
FifoInv == PFifo(s)
ShutdownInv == PShutdown(s)
Converges == Quiescent => s.stop = 0 /\ Cardinality(s.threads) = s.requested
NoStrandedTask == (Quiescent /\ s.threads # {}) => s.queue = <<>>
ActiveSane == s.active >= 0 /\ s.active <= Cardinality(s.threads)
EventuallyQuiescent == <>Quiescent
=============================================================================
