------------------------- MODULE Trace_Dispatcher -------------------------
(* Validation of schedules recorded from the real ThreadedTaskDispatcher.     *)
(* Events (one JSON record each, field k = kind):                             *)
(*   cs        critical section ended (lock released / condition waited):    *)
(*             who ("w" worker / "e" env thread), id, op, arg, snap =        *)
(*             [queue, threads, stop, active, wq] read from the real object   *)
(*   enq, deq  the real deque's append / popleft (task, who, id)              *)
(*   ran, cancelled   the stub task's service() / cancel() was called         *)
(*   returned  shutdown() returned (cancel, queued = len(queue) at return)    *)
(*   quiescent final: no thread can run (live workers, requested, queued)     *)
(* P_* clauses = property C14, evaluated on a monitor that only uses these    *)
(* observable events; M_* = the recorded step is a step of DispatcherOps      *)
(* with exactly the recorded post-state.                                      *)
EXTENDS DispatcherOps, Json, IOUtils

Traces == JsonDeserialize(IOEnv.WV_TRACES)
VARIABLES tid, l, st, verdict

TFollow == [t \in Tasks |-> IF t = 3 THEN 5 ELSE IF t = 4 THEN 6 ELSE 0]
TWaits == [t \in Tasks |-> IF t = 7 THEN 8 ELSE 0]

Mon0 == [q |-> <<>>, holder |-> [t \in Tasks |-> <<"-", 0>>], ran |-> [t \in Tasks |-> 0],
         canc |-> [t \in Tasks |-> 0], requested |-> 0, quiet |-> FALSE, sdStarted |-> FALSE]

TInit(cfg) == [mon |-> Mon0, m |-> S0, synced |-> TRUE]

Actor(e) == <<e.who, e.id>>
ToSet(sq) == {sq[i] : i \in 1..Len(sq)}

Proj(m) == [queue |-> m.queue, threads |-> m.threads, stop |-> m.stop, active |-> m.active, wq |-> m.wq]
Snap(e) == [queue |-> e.snap.queue, threads |-> ToSet(e.snap.threads), stop |-> e.snap.stop,
            active |-> e.snap.active, wq |-> e.snap.wq]

(* candidate successors of the model for an event *)
Cands(m, e) ==
  IF e.k = "cs" THEN
     IF e.who = "w" THEN (IF e.id \in Workers /\ m.pc[e.id] \in {"outside", "woken", "follow"} THEN {WorkerStep(m, e.id)} ELSE {})
     ELSE CASE e.op = "add_task" -> {AddTask(m, e.arg)}
            [] e.op = "set_thread_count" -> {SetCount(m, e.arg)}
            [] e.op = "shutdown" ->
                 (IF m.sd.pc = "none" THEN {SDStart(m, e.arg = 1)} ELSE {})
                 \cup (IF m.sd.pc \in {"enter", "woken"} THEN {SDLoop(m)} ELSE {})
                 \cup (IF m.sd.pc = "wait" THEN {m} ELSE {})
                 \cup (IF m.sd.pc \in {"enter", "woken", "wait"} /\ m.threads # {} THEN {SDExpire(m)} ELSE {})
            [] OTHER -> {}
  ELSE IF e.k = "ran" THEN
     (IF e.who = "w" /\ e.id \in Workers /\ m.pc[e.id] = "run" /\ m.held[e.id] = e.task THEN {HRun(m, e.id)} ELSE {})
  ELSE {m}

Matching(m, e) == IF e.k = "cs" THEN {x \in Cands(m, e) : Proj(x) = Snap(e)} ELSE Cands(m, e)

TDrift(s, e) == IF s.synced /\ Matching(s.m, e) = {} THEN {"M_step_of_DispatcherOps_with_recorded_post_state"} ELSE {}

(* ---- the monitor: property C14 over observable events only ---- *)
TFail(s, e) ==
  LET mon == s.mon IN
  CASE e.k = "deq" ->
         (IF mon.q = <<>> \/ Head(mon.q) # e.task THEN {"P_handed_over_in_submission_order"} ELSE {})
    [] e.k = "ran" ->
         (IF mon.ran[e.task] + mon.canc[e.task] # 0 THEN {"P_run_or_cancelled_exactly_once"} ELSE {})
         \cup (IF mon.holder[e.task] # <<e.who, e.id>> THEN {"P_run_only_by_the_worker_it_was_handed_to"} ELSE {})
    [] e.k = "cancelled" ->
         (IF mon.ran[e.task] + mon.canc[e.task] # 0 THEN {"P_run_or_cancelled_exactly_once"} ELSE {})
         \cup (IF mon.holder[e.task] = <<"-", 0>> THEN {"P_cancelled_only_after_removal_from_queue"} ELSE {})
    [] e.k = "returned" ->
         (IF e.cancel /\ e.queued # 0 THEN {"P_shutdown_cancels_everything_queued"} ELSE {})
    [] e.k = "died" -> {"P_no_thread_dies"}
    [] e.k = "livelock" -> {"P_terminates"}
    [] e.k = "quiescent" ->
         (IF e.live # mon.requested THEN {"P_resizing_converges_to_requested_count"} ELSE {})
         \cup (IF e.live > 0 /\ mon.q # <<>> THEN {"P_no_task_stranded_with_idle_workers"} ELSE {})
         \cup (IF \E t \in Tasks : mon.holder[t] # <<"-", 0>> /\ mon.ran[t] + mon.canc[t] # 1 THEN {"P_every_handed_over_task_ran_or_was_cancelled"} ELSE {})
    [] OTHER -> {}

MonNext(mon, e) ==
  CASE e.k = "enq" -> [mon EXCEPT !.q = Append(@, e.task)]
    [] e.k = "deq" -> [mon EXCEPT !.q = Tail(@), !.holder[e.task] = <<e.who, e.id>>]
    [] e.k = "ran" -> [mon EXCEPT !.ran[e.task] = @ + 1]
    [] e.k = "cancelled" -> [mon EXCEPT !.canc[e.task] = @ + 1]
    [] e.k = "cs" /\ e.who = "e" /\ e.op = "set_thread_count" -> [mon EXCEPT !.requested = e.arg]
    [] e.k = "cs" /\ e.who = "e" /\ e.op = "shutdown" /\ ~mon.sdStarted -> [mon EXCEPT !.requested = 0, !.sdStarted = TRUE]
    [] e.k = "died" -> {"P_no_thread_dies"}
    [] e.k = "livelock" -> {"P_terminates"}
    [] e.k = "quiescent" -> [mon EXCEPT !.quiet = TRUE]
    [] OTHER -> mon

TUpd(s, e) ==
  LET ok == s.synced /\ Matching(s.m, e) # {}
  IN [mon |-> MonNext(s.mon, e),
      m |-> IF ok THEN CHOOSE x \in Matching(s.m, e) : TRUE ELSE s.m,
      synced |-> ok]

TFinal(s) == IF s.mon.quiet THEN {} ELSE {"P_trace_ends_quiescent"}

TB == INSTANCE TraceBatch WITH InitSt <- TInit, Fail <- TFail, Drift <- TDrift, Upd <- TUpd, Final <- TFinal
TraceSpec == TB!Spec
=============================================================================
