----------------------------- MODULE Trace_Lex -----------------------------
(* Call-site sweep: every byte string the harness put in the gate's position  *)
(* of an otherwise valid message, with the verdict of the real code; TLC runs *)
(* the grammar automaton of Lex.tla over the bytes and decides the `iff`.     *)
EXTENDS LexOps, Json, IOUtils

Traces == JsonDeserialize(IOEnv.WV_TRACES)
VARIABLES tid, l, st, verdict

TInit(cfg) == [n |-> 0]
TFail(s, e) ==
     (IF e.acc /\ ~MayAccept(e.b) THEN {"P10_accepted_outside_the_grammar"} ELSE {})
\cup (IF ~e.acc /\ MustAccept(e.b) THEN {"P10_refused_although_grammatical"} ELSE {})
\cup (IF e.raised THEN {"P10_gate_or_conversion_raised"} ELSE {})
TDrift(s, e) == IF e.acc # e.model THEN {"M_callsite_verdict_differs_from_extracted_automaton"} ELSE {}
TUpd(s, e) == [n |-> s.n + 1]
TFinal(s) == {}
TB == INSTANCE TraceBatch WITH InitSt <- TInit, Fail <- TFail, Drift <- TDrift, Upd <- TUpd, Final <- TFinal
TraceSpec == TB!Spec
=============================================================================
