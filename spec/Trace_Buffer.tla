--------------------------- MODULE Trace_Buffer ---------------------------
(* Trace validation of the real OverflowableBuffer against Buffer.tla.       *)
(* Event: [op, n, prune, r, len, rep] - r = the bytes returned, run-length    *)
(* encoded by the harness as <<first byte value, count>> runs where byte i of *)
(* the stream has value i % 251; len/rep = __len__() and representation after *)
(* the operation.  P_* clauses are the property (C17) and only use the        *)
(* abstract queue; M_* clauses compare with the implementation-shaped model.  *)
EXTENDS BufferOps, Sequences, Json, IOUtils

Traces == JsonDeserialize(IOEnv.WV_TRACES)

VARIABLES tid, l, st, verdict

RunsOf(lo, hi) == IF hi = lo THEN <<>> ELSE << <<lo % 251, hi - lo>> >>
RunLen(r) == IF r = <<>> THEN 0 ELSE r[1][2]

TInit(cfg) == [q |-> [lo |-> 0, hi |-> 0], b |-> New, synced |-> TRUE]

(* successor of the abstract queue; for getskip the amount consumed is what   *)
(* the implementation returned (checked to be a legal amount by P clauses).   *)
QNext(q, e) ==
  CASE e.op = "append"  -> [q EXCEPT !.hi = @ + e.n]
    [] e.op = "getskip" -> [q EXCEPT !.lo = @ + RunLen(e.r)]
    [] e.op = "skip"    -> [q EXCEPT !.lo = @ + e.n]
    [] OTHER            -> q

(* the model's reaction: [b, lo, hi] *)
MNext(b0, e) ==
  CASE e.op = "append"  -> [b |-> BAppend(b0, e.n), lo |-> 0, hi |-> 0]
    [] e.op = "peek"    -> BGet(b0, e.n, FALSE)
    [] e.op = "getskip" -> BGet(b0, e.n, TRUE)
    [] e.op = "skip"    -> [b |-> BSkip(b0, e.n, e.prune), lo |-> 0, hi |-> 0]
    [] e.op = "getfile" -> BGetFile(b0)
    [] OTHER            -> [b |-> b0, lo |-> 0, hi |-> 0]

IsPrefixRuns(r, q) == \/ r = <<>>
                      \/ /\ Len(r) = 1
                         /\ r[1][1] = q.lo % 251
                         /\ r[1][2] <= QLen(q)

Want(q, n) == IF n < 0 THEN QLen(q) ELSE Min2(n, QLen(q))

TFail(s, e) ==
  LET q == s.q
      q2 == QNext(q, e)
  IN  (IF e.op \in {"peek", "getskip"} /\ ~IsPrefixRuns(e.r, q) THEN {"P_result_is_prefix_of_queue"} ELSE {})
 \cup (IF e.op = "peek" /\ RunLen(e.r) < Want(q, e.n) THEN {"P_peek_at_least_as_long_as_requested"} ELSE {})
 \cup (IF e.op = "getskip" /\ RunLen(e.r) # Want(q, e.n) THEN {"P_consume_exact_amount"} ELSE {})
 \cup (IF e.op = "getfile" /\ e.r # RunsOf(q.lo, q.hi) THEN {"P_file_view_is_queue"} ELSE {})
 \cup (IF e.len # QLen(q2) THEN {"P_len_is_appended_minus_consumed"} ELSE {})

TDrift(s, e) ==
  IF ~s.synced THEN {}
  ELSE LET m == MNext(s.b, e)
       IN  (IF e.op \in {"peek", "getskip", "getfile"} /\ e.r # RunsOf(m.lo, m.hi) THEN {"M_result"} ELSE {})
      \cup (IF e.rep # m.b.rep THEN {"M_representation"} ELSE {})
      \cup (IF e.len # LenOf(m.b) THEN {"M_len"} ELSE {})

TUpd(s, e) ==
  [q |-> QNext(s.q, e),
   b |-> IF s.synced THEN MNext(s.b, e).b ELSE s.b,
   synced |-> s.synced /\ TDrift(s, e) = {}]

TFinal(s) == {}

TB == INSTANCE TraceBatch WITH InitSt <- TInit, Fail <- TFail, Drift <- TDrift, Upd <- TUpd, Final <- TFinal

TraceSpec == TB!Spec
=============================================================================
