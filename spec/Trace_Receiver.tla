--------------------------- MODULE Trace_Receiver ---------------------------
(* Binding of ReceiverOps to waitress.receiver.ChunkedReceiver: a trace is one  *)
(* input cut into reads; event i = the i-th piece with the attributes of the    *)
(* real object after received(piece) and the value it returned.  Every step     *)
(* must be the model's step.                                                    *)
EXTENDS ReceiverOps, Json, IOUtils

Traces == JsonDeserialize(IOEnv.WV_TRACES)
VARIABLES tid, l, st, verdict

Cl(c, name) == IF c THEN {} ELSE {name}
TInit(cfg) == [r |-> R0]
Step(s, e) == Feed(s.r, e.piece)
TFail(s, e) ==
  LET f == Step(s, e) IN
       Cl(f.consumed = e.consumed, "M_consumed_differs")
  \cup Cl(f.r.rem = e.rem, "M_chunk_remainder_differs")
  \cup Cl(f.r.vce = e.vce, "M_validate_chunk_end_differs")
  \cup Cl(f.r.ctl = e.ctl, "M_control_line_differs")
  \cup Cl(f.r.cend = e.cend, "M_chunk_end_differs")
  \cup Cl(f.r.all = e.all, "M_all_chunks_received_differs")
  \cup Cl(f.r.trailer = e.trailer, "M_trailer_differs")
  \cup Cl(f.r.completed = e.completed, "M_completed_differs")
  \cup Cl((f.r.error # "") = e.error, "M_error_differs")
  \cup Cl(f.r.body = e.body, "M_body_differs")
TDrift(s, e) == {}
TUpd(s, e) == [r |-> Step(s, e).r]
TFinal(s) == {}
TB == INSTANCE TraceBatch WITH InitSt <- TInit, Fail <- TFail, Drift <- TDrift, Upd <- TUpd, Final <- TFinal
TraceSpec == TB!Spec
=============================================================================
