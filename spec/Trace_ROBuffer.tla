-------------------------- MODULE Trace_ROBuffer --------------------------
(* Trace validation of the real ReadOnlyFileBasedBuffer.  cfg = [F, p0,      *)
(* seekable]; events [op, n, r (runs), tell, ret]: tell = file.tell() after   *)
(* the operation, ret = the integer returned by prepare().                    *)
EXTENDS ROBufferOps, Sequences, Json, IOUtils

Traces == JsonDeserialize(IOEnv.WV_TRACES)
VARIABLES tid, l, st, verdict

RunsOf(lo, hi) == IF hi = lo THEN <<>> ELSE << <<lo % 251, hi - lo>> >>
RunLen(x) == IF x = <<>> THEN 0 ELSE x[1][2]

TInit(cfg) == [F |-> cfg.F, p0 |-> cfg.p0, seekable |-> cfg.seekable, r |-> RNew(cfg.p0),
               size |-> -2, got |-> 0, synced |-> TRUE]

MNext(s, e) ==
  CASE e.op = "prepare" -> [r |-> RPrepare(s.r, s.F, s.seekable, e.n), lo |-> 0, hi |-> 0]
    [] e.op = "peek"    -> RGet(s.r, s.F, e.n, FALSE)
    [] e.op = "getskip" -> RGet(s.r, s.F, e.n, TRUE)
    [] e.op = "skip"    -> [r |-> RSkip(s.r, e.n), lo |-> 0, hi |-> 0]
    [] OTHER            -> [r |-> s.r, lo |-> 0, hi |-> 0]

(* property level: only p0, F, the prepared size and the bytes consumed so far *)
Budget(s) == IF s.size = -2 THEN 0
             ELSE LET fs == s.F - s.p0 IN (IF s.size < 0 THEN fs ELSE Min2(fs, s.size)) - s.got
Consumed(e) == CASE e.op = "getskip" -> RunLen(e.r) [] e.op = "skip" -> e.n [] OTHER -> 0

TFail(s, e) ==
      (IF e.op \in {"peek", "getskip"} /\ ~(e.r = <<>> \/ (Len(e.r) = 1 /\ e.r[1][1] = (s.p0 + s.got) % 251))
          THEN {"P_bytes_are_the_file_bytes_at_the_position"} ELSE {})
 \cup (IF e.op \in {"peek", "getskip"} /\ RunLen(e.r) > Budget(s) THEN {"P_never_more_than_prepared_size"} ELSE {})
 \cup (IF e.op = "prepare" /\ s.seekable /\ e.ret # (LET fs == s.F - s.p0 IN IF e.n < 0 THEN fs ELSE Min2(fs, e.n))
          THEN {"P_prepared_size_is_min_of_file_and_request"} ELSE {})
 \cup (IF s.seekable /\ e.tell # s.p0 + s.got + Consumed(e) THEN {"P_file_position_consistent"} ELSE {})

TDrift(s, e) ==
  IF ~s.synced THEN {}
  ELSE LET m == MNext(s, e)
       IN  (IF e.op \in {"peek", "getskip"} /\ e.r # RunsOf(m.lo, m.hi) THEN {"M_result"} ELSE {})
      \cup (IF e.remain # m.r.remain THEN {"M_remain"} ELSE {})

TUpd(s, e) ==
  [s EXCEPT !.r = IF s.synced THEN MNext(s, e).r ELSE s.r,
            !.size = IF e.op = "prepare" THEN e.n ELSE @,
            !.got = @ + Consumed(e),
            !.synced = s.synced /\ TDrift(s, e) = {}]

TFinal(s) == {}
TB == INSTANCE TraceBatch WITH InitSt <- TInit, Fail <- TFail, Drift <- TDrift, Upd <- TUpd, Final <- TFinal
TraceSpec == TB!Spec
=============================================================================
