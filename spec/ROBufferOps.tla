------------------------------ MODULE ROBufferOps ------------------------------
(* ReadOnlyFileBasedBuffer (wsgi.file_wrapper) over a wrapped file of length  *)
(* F whose position is p0 when it is handed over.  Byte i of the file has     *)
(* number i.  State: file position, `remain`, the prepared size.              *)
EXTENDS Integers, FiniteSets, TLC

Min2(a, b) == IF a < b THEN a ELSE b

RNew(p0) == [pos |-> p0, remain |-> 0, prepared |-> -1, yielded |-> 0]

(* prepare(size): size = -1 stands for None *)
RPrepare(r, F, seekable, size) ==
  IF seekable
     THEN LET fsize == F - r.pos
              rem == IF size < 0 THEN fsize ELSE Min2(fsize, size)
          IN [r EXCEPT !.remain = rem, !.prepared = rem]
     ELSE [r EXCEPT !.prepared = r.remain]

(* get(numbytes, skip) -> [r, lo, hi] *)
RGet(r, F, n, skip) ==
  LET want == IF n = -1 \/ n > r.remain THEN r.remain ELSE n
      k == Min2(want, F - r.pos)
  IN [r |-> IF skip THEN [r EXCEPT !.pos = @ + k, !.remain = @ - k, !.yielded = @ + k] ELSE r,
      lo |-> r.pos, hi |-> r.pos + k]

RSkip(r, n) == [r EXCEPT !.pos = @ + n, !.remain = @ - n, !.yielded = @ + n]

=============================================================================
