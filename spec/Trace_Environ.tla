--------------------------- MODULE Trace_Environ ---------------------------
(* C07: the WSGI environ is the exact PEP 3333 image of the request.  For     *)
(* every application call recorded from the real server the expected image is *)
(* computed from the reference parse (Framing.tla) of the same stream and     *)
(* compared key by key.  Strings are sequences of code points.                *)
EXTENDS Framing, Json, IOUtils

CONSTANT Focus
Traces == JsonDeserialize(IOEnv.WV_TRACES)
VARIABLES tid, l, st, verdict

Cl(cond, name) == IF cond THEN {} ELSE {name}
Upper(b) == IF b \in 97..122 THEN b - 32 ELSE IF b = 45 THEN 95 ELSE b
UpperSeq(x) == [i \in 1..Len(x) |-> Upper(x[i])]
HTTPP == <<72, 84, 84, 80, 95>>
K_CT == <<67, 79, 78, 84, 69, 78, 84, 95, 84, 89, 80, 69>>
K_CL == <<67, 79, 78, 84, 69, 78, 84, 95, 76, 69, 78, 71, 84, 72>>
K_TE == <<84, 82, 65, 78, 83, 70, 69, 82, 95, 69, 78, 67, 79, 68, 73, 78, 71>>
CgiKey(name) == LET u == UpperSeq(name) IN IF u \in {K_CT, K_CL} THEN u ELSE HTTPP \o u

RECURSIVE Dec(_)
Dec(n) == IF n < 10 THEN <<48 + n>> ELSE Dec(n \div 10) \o <<48 + (n % 10)>>

(* values of all fields with CGI key k, in arrival order, joined by ", " *)
RECURSIVE Join(_, _, _, _)
Join(fields, k, i, acc) ==
  IF i > Len(fields) THEN acc
  ELSE IF CgiKey(fields[i].n) = k
          THEN Join(fields, k, i + 1, IF acc = <<-1>> THEN fields[i].v ELSE acc \o <<44, 32>> \o fields[i].v)
          ELSE Join(fields, k, i + 1, acc)

HexV(b) == IF b \in 48..57 THEN b - 48 ELSE IF b \in 65..70 THEN b - 55 ELSE b - 87
RECURSIVE PctDecode(_, _)
PctDecode(x, i) == IF i > Len(x) THEN <<>>
                   ELSE IF x[i] = 37 /\ i + 2 <= Len(x) /\ Hex(x[i + 1]) /\ Hex(x[i + 2])
                           THEN <<HexV(x[i + 1]) * 16 + HexV(x[i + 2])>> \o PctDecode(x, i + 3)
                           ELSE <<x[i]>> \o PctDecode(x, i + 1)
ValidPct(x) == \A i \in 1..Len(x) : x[i] = 37 => (i + 2 <= Len(x) /\ Hex(x[i + 1]) /\ Hex(x[i + 2]))
FirstOf(x, set) == LET S == {i \in 1..Len(x) : x[i] \in set} IN IF S = {} THEN Len(x) + 1 ELSE SetMin(S)
IsPrefixSeq(a, b) == Len(a) <= Len(b) /\ SubSeq(b, 1, Len(a)) = a

(* origin-form target: path [ "?" query ] [ "#" fragment ] *)
OriginForm(t) == Len(t) > 0 /\ t[1] = 47
RawPath(t) == Slice(t, 1, FirstOf(t, {63, 35}) - 1)
RawQuery(t) == LET q == FirstOf(t, {63}) h == FirstOf(t, {35})
               IN IF q > Len(t) \/ q > h THEN <<>> ELSE Slice(t, q + 1, h - 1)
(* the server deliberately collapses a run of slashes at the beginning of the decoded path into one, before the
   url_prefix is split off ("//evil.example/" must not look like a network-path reference to the application) *)
RECURSIVE LStripSlash(_)
LStripSlash(x) == IF Len(x) > 0 /\ x[1] = 47 THEN LStripSlash(Tail(x)) ELSE x
PathInfo(t, prefix) ==
  LET d == PctDecode(RawPath(t), 1)
      p == IF Len(d) > 0 /\ d[1] = 47 THEN <<47>> \o LStripSlash(d) ELSE d
  IN IF prefix = <<>> THEN p
     ELSE IF p = prefix THEN <<>>
     ELSE IF IsPrefixSeq(prefix \o <<47>>, p) THEN Slice(p, Len(prefix) + 1, Len(p))
     ELSE p

EnvGet(env, k) == LET S == {i \in 1..Len(env) : env[i][1] = k} IN IF S = {} THEN <<-1>> ELSE env[SetMin(S)][2]
Key(str) == str   \* keys are given as code point sequences by the harness

(* walk the application calls of an observation along the reference parse *)
RECURSIVE Walk(_, _, _, _, _)
Walk(s, cfg, obs, i, p) ==
  IF i > Len(obs) THEN {}
  ELSE LET ev == obs[i] m == Msg(s, p, cfg) IN
    IF ev.k # "app" \/ m.inc \/ ~m.deliverOK THEN {}     \* framing disagreements are C01's business
    ELSE
      LET env == ev.env
          chunked == m.v11 /\ m.hadTE
          hdrKeys == {CgiKey(m.fields[j].n) : j \in 1..Len(m.fields)} \ ({K_CL} \cup (IF chunked THEN {HTTPP \o K_TE} ELSE {}))
          expected == {<<k, Join(m.fields, k, 1, <<-1>>)>> : k \in hdrKeys}
          observed == {<<env[j][1], env[j][2]>> : j \in {x \in 1..Len(env) : IsPrefixSeq(HTTPP, env[x][1]) \/ env[x][1] = K_CT}}
          cl == EnvGet(env, K_CL)
          t == m.target
      IN  Cl(observed = expected, "P07_each_field_once_under_its_CGI_name_joined_in_order")
     \cup Cl(ev.body = m.body, "P07_wsgi_input_is_the_framed_body")
     \cup Cl((cl = <<-1>> /\ Len(m.body) = 0) \/ (cl # <<-1>> /\ ((cl = <<>> /\ Len(m.body) = 0) \/ (Len(cl) > 0 /\ All(cl, Digit) /\ DecVal(cl, 1, 0) = Len(m.body)))),
             "P07_content_length_equals_body_length")
     \cup Cl(~chunked \/ cl = Dec(Len(m.body)), "P07_chunked_body_gets_decoded_length")
     \cup Cl(ev.method = m.method, "P07_request_method")
     \cup Cl(ev.proto = (IF m.v11 THEN <<72, 84, 84, 80, 47, 49, 46, 49>> ELSE <<72, 84, 84, 80, 47, 49, 46, 48>>), "P07_server_protocol")
     \cup Cl(ev.script = cfg.prefix, "P07_script_name_is_url_prefix")
     \cup Cl(~(OriginForm(t) /\ ValidPct(RawPath(t))) \/ ev.path = PathInfo(t, cfg.prefix), "P07_path_info_is_decoded_path_after_prefix")
     \cup Cl(~OriginForm(t) \/ ev.query = RawQuery(t), "P07_query_string_as_sent")
     \cup Cl(ev.types_ok, "P07_all_values_are_latin1_native_strings")
     \cup Cl(ev.server_vars_ok, "P07_client_fields_never_replace_server_variables")
     \cup Walk(s, cfg, obs, i + 1, m.next)

TFail(s, e) == Walk(s.cfg.s, s.cfg, e.obs, 1, 1) \cap Focus
TInit(cfg) == [cfg |-> cfg]
TDrift(s, e) == {}
TUpd(s, e) == s
TFinal(s) == {}
TB == INSTANCE TraceBatch WITH InitSt <- TInit, Fail <- TFail, Drift <- TDrift, Upd <- TUpd, Final <- TFinal
TraceSpec == TB!Spec
=============================================================================
