------------------------------ MODULE BufferOps ------------------------------
(* OverflowableBuffer (src/waitress/buffers.py) as the server uses it: an     *)
(* overflowable FIFO byte queue that migrates between three representations  *)
(* (plain bytes -> BytesIO file -> temporary file).                           *)
(*                                                                           *)
(* Bytes are numbered 0,1,2,... in the order they are appended, so every      *)
(* piece of content is a half-open range of byte numbers [lo, hi).  The       *)
(* abstract queue is q = [lo |-> bytes consumed, hi |-> bytes appended].      *)
(* The implementation-shaped part mirrors the code: strbuf, the file (all     *)
(* bytes ever written to it), the file's read position, the `remain`          *)
(* counter, the `overflowed` flag, and the thresholds L (STRBUF_LIMIT) and    *)
(* OV (the configured overflow).                                             *)
EXTENDS Integers, FiniteSets, TLC

CONSTANTS L, OV

Min2(a, b) == IF a < b THEN a ELSE b

New == [rep |-> "none", slo |-> 0, shi |-> 0, flo |-> 0, fhi |-> 0, pos |-> 0,
        remain |-> 0, overflowed |-> FALSE]

SLen(b) == b.shi - b.slo
FLen(b) == b.fhi - b.flo

(* _create_buffer(): strbuf moves into a fresh file; which kind is decided by *)
(* len(strbuf) >= overflow.                                                  *)
CreateBuffer(b) ==
  LET large == SLen(b) >= OV
  IN [rep |-> IF large THEN "tempfile" ELSE "bytesio",
      slo |-> b.shi, shi |-> b.shi,
      flo |-> b.slo, fhi |-> b.shi, pos |-> 0,
      remain |-> SLen(b), overflowed |-> large]

(* FileBasedBuffer.append + the overflow test of OverflowableBuffer.append;  *)
(* migration = TempfileBasedBuffer(from_buffer): copy the whole old file,     *)
(* remain = new_len - read_pos, seek(read_pos).                               *)
FileAppend(b, n) ==
  LET b1 == [b EXCEPT !.fhi = @ + n, !.remain = @ + n]
  IN IF ~b1.overflowed /\ b1.remain >= OV
        THEN [b1 EXCEPT !.rep = "tempfile", !.overflowed = TRUE, !.remain = FLen(b1) - b1.pos]
        ELSE b1

BAppend(b, n) ==
  IF b.rep = "none"
     THEN IF SLen(b) + n < L
             THEN [b EXCEPT !.shi = @ + n]
             ELSE FileAppend(CreateBuffer(b), n)
     ELSE FileAppend(b, n)

(* get(numbytes, skip): returns [b, lo, hi] - the new buffer and the range    *)
(* of byte numbers returned.                                                 *)
BGet(b, n, skip) ==
  IF b.rep = "none" /\ ~skip
     THEN [b |-> b, lo |-> b.slo, hi |-> b.shi]
     ELSE LET b0 == IF b.rep = "none" THEN CreateBuffer(b) ELSE b
              avail == FLen(b0) - b0.pos
              k == IF n < 0 THEN avail ELSE Min2(n, avail)
              lo == b0.flo + b0.pos
          IN [b |-> IF skip THEN [b0 EXCEPT !.pos = @ + k, !.remain = @ - k] ELSE b0,
              lo |-> lo, hi |-> lo + k]

FileSkip(b, n) == [b EXCEPT !.pos = @ + n, !.remain = @ - n]

BSkip(b, n, prune) ==
  IF b.rep = "none"
     THEN IF prune /\ n = SLen(b)
             THEN [b EXCEPT !.slo = b.shi]
             ELSE FileSkip(CreateBuffer(b), n)
     ELSE FileSkip(b, n)

LenOf(b) == IF b.rep = "none" THEN SLen(b) ELSE b.remain

(* getfile(): forces a file representation; the view is what a read to EOF   *)
(* from the file's current position returns.                                 *)
BGetFile(b) ==
  LET b0 == IF b.rep = "none" THEN CreateBuffer(b) ELSE b
  IN [b |-> b0, lo |-> b0.flo + b0.pos, hi |-> b0.fhi]

ContentLo(b) == IF b.rep = "none" THEN b.slo ELSE b.flo + b.pos
ContentHi(b) == IF b.rep = "none" THEN b.shi ELSE b.fhi

-----------------------------------------------------------------------------
(* The property (C17), stated on the abstract queue q only.                  *)
QLen(q) == q.hi - q.lo

PeekOK(q, n, lo, hi) ==      \* a peek returns a prefix, at least as long as asked
  /\ lo = q.lo \/ lo = hi    \* (an empty result carries no position)
  /\ hi <= q.hi
  /\ hi - lo >= (IF n < 0 THEN QLen(q) ELSE Min2(n, QLen(q)))

=============================================================================
