------------------------------- MODULE Parser -------------------------------
(* Every way of cutting a request (and what follows it) into reads, on the      *)
(* transcription of HTTPRequestParser.received (ParserOps): whether the request *)
(* is refused (and with which status), complete (with which body, after how     *)
(* many bytes) or still incomplete does not depend on the cuts (C02), and the   *)
(* limits are enforced whatever the cuts (C06).                                 *)
EXTENDS ParserOps

CONSTANT Inputs          \* set of records [w |-> bytes, ph |-> what parse_header says about the head, cfg |-> [maxh, maxb]]
VARIABLES inp, pos, p, used
vars == <<inp, pos, p, used>>

Init == inp \in Inputs /\ pos = 0 /\ p = P0 /\ used = 0
Final == p.completed \/ pos = Len(inp.w)
Next == /\ ~Final
        /\ \E k \in 1..(Len(inp.w) - pos) :
             LET f == FeedAll(p, SubSeq(inp.w, pos + 1, pos + k), inp.cfg, inp.ph)
             IN p' = f.p /\ used' = used + f.consumed /\ pos' = pos + k
        /\ UNCHANGED inp
Spec == Init /\ [][Next]_vars

One == FeedAll(P0, inp.w, inp.cfg, inp.ph)
(* (a chunked body in which both a fault and max_request_body_size are reached is refused with 400 or with 413,
   depending on whether both fall into the same read: StatusIndependentOfCuts, a known finding, pinned by
   tests/test_functional.py::*::test_request_body_too_large_chunked_encoding) *)
SameUpToThat(a, b) == \/ a = b
                      \/ (a[1] = "refused" /\ b[1] = "refused" /\ {a[2], b[2]} = {400, 413} /\ inp.ph.chunked)
SegmentationIndependent ==
  Final => /\ SameUpToThat(POutcome(p), POutcome(One.p))
           /\ (POutcome(p)[1] = "complete" => used = One.consumed)
StatusIndependentOfCuts == Final => (POutcome(p)[1] = "refused" => POutcome(p) = POutcome(One.p))
(* the header limit: a head that is not over by max_request_header_size bytes is refused, wherever the cuts fall; at most
   one read is consumed beyond the limit *)
HeaderLimit ==
  LET idx == FindDouble(inp.w) IN
  /\ (Final /\ ((idx >= 0 /\ idx >= inp.cfg.maxh) \/ (idx < 0 /\ Len(inp.w) >= inp.cfg.maxh))) => p.error = 431
  /\ (p.phase = "head" /\ ~p.completed) => p.hbr < inp.cfg.maxh
ConsumedBounded == used <= pos
=============================================================================
