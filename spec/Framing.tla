------------------------------ MODULE Framing ------------------------------
(* Reference HTTP/1.x request framing (RFC 9112) as a pure function on byte   *)
(* sequences: Msg(s, p, cfg) analyses the message that starts at position p   *)
(* of stream s and says what a server may do with it:                         *)
(*   inc        the message is incomplete (nothing may be delivered)          *)
(*   deliverOK  it may be handed to the application, as [method, target,      *)
(*              version, fields, body], after which the connection must be    *)
(*              closed iff mustClose                                          *)
(*   refuseOK   it may be refused with one of `codes` (and closed)            *)
(* Exactly one of deliverOK/refuseOK holds except where the property text     *)
(* leaves the choice (CL+TE, TE on a non-1.1 request, obs-fold, ...).         *)
(* There is no notion of read boundaries here: that IS property C02.          *)
EXTENDS Integers, Sequences, FiniteSets, TLC

Digit(b) == b \in 48..57
Hex(b) == Digit(b) \/ b \in 65..70 \/ b \in 97..102
Alpha(b) == b \in 65..90 \/ b \in 97..122
Tchar(b) == Digit(b) \/ Alpha(b) \/ b \in {33, 35, 36, 37, 38, 39, 42, 43, 45, 46, 94, 95, 96, 124, 126}
Vchar(b) == b \in 33..126
Obs(b) == b \in 128..255
Ws(b) == b = 32 \/ b = 9
Lower(b) == IF b \in 65..90 THEN b + 32 ELSE b
LowerSeq(x) == [i \in 1..Len(x) |-> Lower(x[i])]
SetMin(S) == CHOOSE x \in S : \A y \in S : x <= y
Min2(a, b) == IF a < b THEN a ELSE b

(* position of the first CRLF at or after i (0 = none), limited to before `hi` *)
FindCRLF(s, i, hi) == LET S == {j \in i..(hi - 1) : s[j] = 13 /\ s[j + 1] = 10} IN IF S = {} THEN 0 ELSE SetMin(S)
FindCRLF2(s, i) == LET S == {j \in i..(Len(s) - 3) : s[j] = 13 /\ s[j + 1] = 10 /\ s[j + 2] = 13 /\ s[j + 3] = 10}
                   IN IF S = {} THEN 0 ELSE SetMin(S)
Slice(s, a, b) == IF b < a THEN <<>> ELSE SubSeq(s, a, b)
All(x, P(_)) == \A i \in 1..Len(x) : P(x[i])
HasBareCRLF(x) == \E i \in 1..Len(x) : x[i] \in {10, 13}

TrimWs(x) == LET A == {i \in 1..Len(x) : ~Ws(x[i])}
             IN IF A = {} THEN <<>> ELSE SubSeq(x, SetMin(A), CHOOSE m \in A : \A y \in A : y <= m)

RECURSIVE SplitLines(_, _, _)
(* lines of s[a..b] separated by CRLF (b = last byte before the head terminator) *)
SplitLines(s, a, b) == IF a > b THEN <<>>
                       ELSE LET j == FindCRLF(s, a, b + 1)
                            IN IF j = 0 THEN <<Slice(s, a, b)>> ELSE <<Slice(s, a, j - 1)>> \o SplitLines(s, j + 2, b)

(* decimal value of a digit sequence, saturating at Cap *)
Cap == 1000000
RECURSIVE DecVal(_, _, _)
DecVal(x, i, acc) == IF i > Len(x) THEN acc ELSE DecVal(x, i + 1, Min2(Cap, acc * 10 + (x[i] - 48)))
HexDigit(b) == IF Digit(b) THEN b - 48 ELSE IF b \in 65..70 THEN b - 55 ELSE b - 87
RECURSIVE HexVal(_, _, _)
HexVal(x, i, acc) == IF i > Len(x) THEN acc ELSE HexVal(x, i + 1, Min2(Cap, acc * 16 + HexDigit(x[i])))

(* ---- request line ---- *)
BadAuthority(t) ==
  LET S == {i \in 1..(Len(t) - 2) : t[i] = 58 /\ t[i + 1] = 47 /\ t[i + 2] = 47}            \* "://"
  IN IF S = {} THEN FALSE
     ELSE LET a == SetMin(S) + 3
              E == {i \in a..Len(t) : t[i] \in {47, 63, 35}}                                   \* "/" "?" "#"
              b == IF E = {} THEN Len(t) ELSE SetMin(E) - 1
              auth == Slice(t, a, b)
              O == {i \in 1..Len(auth) : auth[i] = 91}
              C == {i \in 1..Len(auth) : auth[i] = 93}
          IN IF O = {} /\ C = {} THEN FALSE
             ELSE ~(/\ Cardinality(O) = 1 /\ Cardinality(C) = 1
                    /\ LET o == SetMin(O) c == SetMin(C) IN
                         /\ o + 1 < c
                         /\ (o = 1 \/ auth[o - 1] = 64)                                           \* start of the host (after userinfo "@")
                         /\ \A i \in (o + 1)..(c - 1) : Hex(auth[i]) \/ auth[i] \in {58, 46}
                         /\ (c = Len(auth) \/ auth[c + 1] = 58))

ReqLine(line) ==
  LET sp1 == {i \in 1..Len(line) : line[i] = 32}
  IN IF sp1 = {} THEN [ok |-> FALSE]
     ELSE LET a == SetMin(sp1)
              method == Slice(line, 1, a - 1)
              rest == Slice(line, a + 1, Len(line))
              sp2 == {i \in 1..Len(rest) : rest[i] = 32}
              target == IF sp2 = {} THEN rest ELSE Slice(rest, 1, SetMin(sp2) - 1)
              ver == IF sp2 = {} THEN <<>> ELSE Slice(rest, SetMin(sp2) + 1, Len(rest))
              verok == ver = <<>> \/ (Len(ver) = 8 /\ SubSeq(ver, 1, 5) = <<72, 84, 84, 80, 47>> /\ Digit(ver[6]) /\ ver[7] = 46 /\ Digit(ver[8]))
          IN [ok |-> Len(method) > 0 /\ All(method, Tchar) /\ Len(target) > 0 /\ All(target, LAMBDA b : Vchar(b) \/ Obs(b)) /\ verok /\ (sp2 = {} \/ Cardinality(sp2) = 1),
              method |-> method, target |-> target,
              v11 |-> ver = <<72, 84, 84, 80, 47, 49, 46, 49>>,
              v10 |-> ver = <<72, 84, 84, 80, 47, 49, 46, 48>>,
              ver |-> ver,
              lowerMethod |-> \E i \in 1..Len(method) : method[i] \in 97..122,
              obsTarget |-> \E i \in 1..Len(target) : Obs(target[i]),
              (* absolute-form whose authority has a square bracket that is not part of one well-formed IP literal
                 ("[" 1*( HEXDIG / ":" / "." ) "]" at the end of the host, optionally followed by ":port"): not a URI *)
              badAuth |-> BadAuthority(target)]

(* ---- header section: join obs-fold continuation lines, then parse each field line ---- *)
RECURSIVE Unfold(_, _, _)
Unfold(lines, i, acc) ==
  IF i > Len(lines) THEN acc
  ELSE IF Len(lines[i]) > 0 /\ Ws(lines[i][1]) /\ Len(acc) > 0
          THEN Unfold(lines, i + 1, [acc EXCEPT ![Len(acc)] = @ \o lines[i]])
          ELSE Unfold(lines, i + 1, Append(acc, lines[i]))

Field(line) ==
  LET col == {i \in 1..Len(line) : line[i] = 58}
  IN IF col = {} THEN [ok |-> FALSE, ctl |-> FALSE]
     ELSE LET c == SetMin(col)
              name == Slice(line, 1, c - 1)
              raw == Slice(line, c + 1, Len(line))
              val == TrimWs(raw)
          IN [ok |-> Len(name) > 0 /\ All(name, Tchar) /\ All(val, LAMBDA b : Vchar(b) \/ Obs(b) \/ Ws(b)),
              (* a control character other than CR LF NUL in a value may be refused or retained *)
              ctl |-> Len(name) > 0 /\ All(name, Tchar) /\ ~All(val, LAMBDA b : Vchar(b) \/ Obs(b) \/ Ws(b))
                      /\ All(val, LAMBDA b : ~(b \in {0, 10, 13})),
              name |-> LowerSeq(name), value |-> val, under |-> \E i \in 1..Len(name) : name[i] = 95]

NameIs(f, str) == f.name = str
CL == <<99, 111, 110, 116, 101, 110, 116, 45, 108, 101, 110, 103, 116, 104>>
TE == <<116, 114, 97, 110, 115, 102, 101, 114, 45, 101, 110, 99, 111, 100, 105, 110, 103>>
CONN == <<99, 111, 110, 110, 101, 99, 116, 105, 111, 110>>
EXPECT == <<101, 120, 112, 101, 99, 116>>
CHUNKED == <<99, 104, 117, 110, 107, 101, 100>>
CLOSE == <<99, 108, 111, 115, 101>>
KEEPALIVE == <<107, 101, 101, 112, 45, 97, 108, 105, 118, 101>>
CONTINUE100 == <<49, 48, 48, 45, 99, 111, 110, 116, 105, 110, 117, 101>>

RECURSIVE SplitComma(_, _)
SplitComma(x, a) == LET C == {i \in a..Len(x) : x[i] = 44}
                    IN IF C = {} THEN <<TrimWs(Slice(x, a, Len(x)))>>
                       ELSE <<TrimWs(Slice(x, a, SetMin(C) - 1))>> \o SplitComma(x, SetMin(C) + 1)

(* ---- chunked body starting at p: [st, next, body, wire] ---- *)
ExtOK(x) ==   \* *( ";" token [ "=" ( token / quoted-string ) ] ) checked by a small scan
  LET RECURSIVE Scan(_, _)
      Scan(i, q) ==
        IF i > Len(x) THEN q \in {"e0", "name", "vtok", "qend"}
        ELSE LET b == x[i] IN
          CASE q = "e0"    -> IF b = 59 THEN Scan(i + 1, "name0") ELSE FALSE
            [] q = "name0" -> IF Tchar(b) THEN Scan(i + 1, "name") ELSE FALSE
            [] q = "name"  -> IF Tchar(b) THEN Scan(i + 1, "name") ELSE IF b = 61 THEN Scan(i + 1, "val0") ELSE IF b = 59 THEN Scan(i + 1, "name0") ELSE FALSE
            [] q = "val0"  -> IF Tchar(b) THEN Scan(i + 1, "vtok") ELSE IF b = 34 THEN Scan(i + 1, "quot") ELSE FALSE
            [] q = "vtok"  -> IF Tchar(b) THEN Scan(i + 1, "vtok") ELSE IF b = 59 THEN Scan(i + 1, "name0") ELSE FALSE
            [] q = "quot"  -> IF b = 34 THEN Scan(i + 1, "qend") ELSE IF b = 92 THEN Scan(i + 1, "qesc")
                              ELSE IF (b = 9 \/ b = 32 \/ b = 33 \/ b \in 35..91 \/ b \in 93..126 \/ Obs(b)) THEN Scan(i + 1, "quot") ELSE FALSE
            [] q = "qesc"  -> IF (b = 9 \/ b = 32 \/ Vchar(b) \/ Obs(b)) THEN Scan(i + 1, "quot") ELSE FALSE
            [] q = "qend"  -> IF b = 59 THEN Scan(i + 1, "name0") ELSE FALSE
            [] OTHER -> FALSE
  IN Scan(1, "e0")

RECURSIVE Chunks(_, _, _, _)
Chunks(s, p, body, start) ==
  LET j == FindCRLF(s, p, Len(s))
  IN IF j = 0 THEN [st |-> "inc", next |-> Len(s) + 1, body |-> body, wire |-> Len(s) + 1 - start,
                    (* a control line that can no longer become valid may be refused at once *)
                    doomed |-> \E i \in p..Len(s) : ~(Hex(s[i]) \/ s[i] = 59 \/ Vchar(s[i]) \/ Obs(s[i]) \/ Ws(s[i]) \/ s[i] = 13)]
     ELSE LET line == Slice(s, p, j - 1)
              semi == {i \in 1..Len(line) : line[i] = 59}
              size == IF semi = {} THEN line ELSE Slice(line, 1, SetMin(semi) - 1)
              ext == IF semi = {} THEN <<>> ELSE Slice(line, SetMin(semi), Len(line))
          IN IF ~(Len(size) > 0 /\ All(size, Hex) /\ ExtOK(ext)) THEN [st |-> "bad", next |-> j + 2, body |-> body, wire |-> j + 2 - start, doomed |-> TRUE]
             ELSE LET n == HexVal(size, 1, 0)
                  IN IF n = 0 THEN [st |-> "last", next |-> j + 2, body |-> body, wire |-> j + 2 - start, doomed |-> FALSE]
                     ELSE IF Len(s) < j + 1 + n THEN [st |-> "inc", next |-> Len(s) + 1, body |-> body \o Slice(s, j + 2, Len(s)), wire |-> Len(s) + 1 - start, doomed |-> FALSE]
                     ELSE IF Len(s) < j + 1 + n + 2 THEN
                            [st |-> "inc", next |-> Len(s) + 1, body |-> body \o Slice(s, j + 2, j + 1 + n), wire |-> Len(s) + 1 - start,
                             doomed |-> Len(s) >= j + 2 + n /\ s[j + 2 + n] # 13]
                     ELSE IF ~(s[j + 2 + n] = 13 /\ s[j + 3 + n] = 10)
                            THEN [st |-> "bad", next |-> j + 2 + n, body |-> body \o Slice(s, j + 2, j + 1 + n), wire |-> j + 4 + n - start, doomed |-> TRUE]
                     ELSE Chunks(s, j + 4 + n, body \o Slice(s, j + 2, j + 1 + n), start)

(* trailer section starting at p: *( field-line CRLF ) CRLF *)
Trailer(s, p) ==
  IF Len(s) >= p + 1 /\ s[p] = 13 /\ s[p + 1] = 10 THEN [st |-> "ok", next |-> p + 2, doomed |-> FALSE]
  ELSE LET e == FindCRLF2(s, p)
       IN IF e = 0 THEN [st |-> "inc", next |-> Len(s) + 1, doomed |-> \E i \in p..Len(s) : s[i] \in {0, 10} /\ ~(i > p /\ s[i - 1] = 13)]
          ELSE LET lines == Unfold(SplitLines(s, p, e - 1), 1, <<>>)
               IN IF \A i \in 1..Len(lines) : ~HasBareCRLF(lines[i]) /\ Field(lines[i]).ok
                     THEN [st |-> "ok", next |-> e + 4, doomed |-> FALSE] ELSE [st |-> "bad", next |-> e + 4, doomed |-> TRUE]

-----------------------------------------------------------------------------
(* cfg = [maxh, maxb]                                                         *)
Inc(next) == [inc |-> TRUE, deliverOK |-> FALSE, refuseOK |-> FALSE, codes |-> {}, next |-> next, empty |-> FALSE]
Ref(codes, next) == [inc |-> FALSE, deliverOK |-> FALSE, refuseOK |-> TRUE, codes |-> codes, next |-> next, empty |-> FALSE]
IncOrRef(codes, next) == [inc |-> TRUE, deliverOK |-> FALSE, refuseOK |-> TRUE, codes |-> codes, next |-> next, empty |-> FALSE]

Msg(s, p0, cfg) ==
  LET (* a server should ignore empty lines received before the request line *)
      RECURSIVE SkipEmpty(_)
      SkipEmpty(q) == IF Len(s) >= q + 1 /\ s[q] = 13 /\ s[q + 1] = 10 THEN SkipEmpty(q + 2) ELSE q
      p == SkipEmpty(p0)
      e == FindCRLF2(s, p)
      avail == Len(s) + 1 - p0
  IN IF p > Len(s) THEN [Inc(p) EXCEPT !.empty = TRUE]
     ELSE IF e = 0 THEN (IF Len(s) + 1 - p >= cfg.maxh THEN Ref({431}, Len(s) + 1)
                         ELSE IF avail >= cfg.maxh THEN IncOrRef({431}, Len(s) + 1)   \* leading empty lines may or may not be counted
                         (* a head that already contains a bare LF / NUL can be refused before its end is seen *)
                         ELSE IF \E i \in p..Len(s) : (s[i] = 10 /\ ~(i > p /\ s[i - 1] = 13)) \/ s[i] = 0 THEN IncOrRef({400}, Len(s) + 1)
                         ELSE Inc(Len(s) + 1))
     ELSE IF (e + 4 - p) >= cfg.maxh THEN Ref({431}, e + 4)
     ELSE
       LET raw == SplitLines(s, p, e - 1)
           rl == ReqLine(raw[1])
           hl == Unfold(Tail(raw), 1, <<>>)
           folded == Len(hl) # Len(raw) - 1
           leadingFold == Len(raw) >= 2 /\ Len(raw[2]) > 0 /\ Ws(raw[2][1])
           bare == \E i \in 1..Len(raw) : HasBareCRLF(raw[i])
           fs == [i \in 1..Len(hl) |-> Field(hl[i])]
           badField == \E i \in 1..Len(fs) : ~fs[i].ok /\ ~fs[i].ctl
           ctlField == \E i \in 1..Len(fs) : ~fs[i].ok /\ fs[i].ctl
       IN IF bare \/ ~rl.ok \/ badField \/ leadingFold THEN Ref({400}, e + 4)
          ELSE
          LET good == SelectSeq(fs, LAMBDA f : f.ok /\ ~f.under)
              cls == SelectSeq(good, LAMBDA f : NameIs(f, CL))
              tes == SelectSeq(good, LAMBDA f : NameIs(f, TE))
              cons == SelectSeq(good, LAMBDA f : NameIs(f, CONN))
              conn == IF Len(cons) = 0 THEN <<>> ELSE LowerSeq(cons[Len(cons)].value)
              clOK == Len(cls) = 1 /\ Len(cls[1].value) > 0 /\ All(cls[1].value, Digit)
              clBad == Len(cls) >= 1 /\ ~clOK
              clv == IF clOK THEN DecVal(cls[1].value, 1, 0) ELSE 0
              codings == IF Len(tes) = 0 THEN <<>> ELSE SplitComma(LowerSeq(tes[1].value), 1)
              nonEmpty == SelectSeq(codings, LAMBDA c : c # <<>>)
              (* empty list elements are to be ignored by recipients (RFC 9110 5.6.1), but may also be refused *)
              teChunkedOnly == Len(tes) = 1 /\ nonEmpty = <<CHUNKED>>
              teEmptyElems == Len(tes) = 1 /\ nonEmpty # codings
              HOSTN == <<104, 111, 115, 116>>
              CTYPE == <<99, 111, 110, 116, 101, 110, 116, 45, 116, 121, 112, 101>>
              dupHost == Len(SelectSeq(good, LAMBDA f : NameIs(f, HOSTN))) > 1
              dupCtype == Len(SelectSeq(good, LAMBDA f : NameIs(f, CTYPE))) > 1
              teOddList == Len(tes) >= 1 /\ (Len(tes) > 1 \/ \E i \in 1..Len(codings) : codings[i] = <<>>)
              keep10 == rl.v10 /\ conn = KEEPALIVE
              (* a request line without / with another version leaves persistence to the server *)
              baseClose == (rl.v11 /\ conn = CLOSE) \/ (rl.v10 /\ ~keep10)
              mk(body, next, close, alsoRefuse, codes) ==
                 [inc |-> FALSE, deliverOK |-> ~dupHost, refuseOK |-> alsoRefuse \/ (e + 4 - p0) >= cfg.maxh \/ dupHost \/ dupCtype \/ teEmptyElems \/ ctlField \/ folded \/ rl.lowerMethod \/ rl.obsTarget \/ rl.badAuth \/ (~rl.v11 /\ ~rl.v10),
                  codes |-> codes \cup {400} \cup (IF teEmptyElems THEN {501} ELSE {}) \cup (IF (e + 4 - p0) >= cfg.maxh THEN {431} ELSE {}),
                  next |-> next, empty |-> FALSE,
                  method |-> rl.method, target |-> rl.target, v11 |-> rl.v11, nfields |-> Len(good), body |-> body,
                  mustClose |-> close, mayClose |-> TRUE, verFree |-> ~rl.v11 /\ ~rl.v10,
                  fields |-> [i \in 1..Len(good) |-> [n |-> good[i].name, v |-> good[i].value]],
                  expect |-> rl.v11 /\ \E i \in 1..Len(good) : NameIs(good[i], EXPECT) /\ LowerSeq(good[i].value) = CONTINUE100,
                  hadTE |-> Len(tes) > 0]
          IN IF Len(tes) > 0 /\ rl.v11 /\ ~teChunkedOnly THEN Ref({400, 501}, e + 4)
             ELSE IF Len(tes) > 0 /\ rl.v11 THEN
                LET ch == Chunks(s, e + 4, <<>>, e + 4)
                    tr == IF ch.st = "last" THEN Trailer(s, ch.next) ELSE [st |-> "none", next |-> ch.next, doomed |-> FALSE]
                    wire == tr.next - (e + 4)
                    over == ch.wire >= cfg.maxb \/ wire >= cfg.maxb
                IN CASE Len(ch.body) >= cfg.maxb -> Ref({413}, ch.next)
                     (* when a syntax error and the size limit both apply either status may win; the limit may be
                        counted on everything received for the body so far *)
                     [] ch.st = "bad" -> Ref({400} \cup (IF Len(s) + 1 - (e + 4) >= cfg.maxb THEN {413} ELSE {}), ch.next)
                     [] ch.st = "inc" /\ over -> IncOrRef({413}, ch.next)
                     [] ch.st = "inc" /\ ch.doomed -> IncOrRef({400}, ch.next)
                     [] ch.st = "inc" -> Inc(ch.next)
                     [] tr.st = "bad" -> Ref({400} \cup (IF Len(s) + 1 - (e + 4) >= cfg.maxb THEN {413} ELSE {}), tr.next)
                     [] tr.st = "inc" /\ over -> IncOrRef({413}, tr.next)
                     [] tr.st = "inc" /\ tr.doomed -> IncOrRef({400}, tr.next)
                     [] tr.st = "inc" -> Inc(tr.next)
                     [] OTHER -> mk(ch.body, tr.next, baseClose \/ Len(cls) > 0, Len(cls) > 0 \/ over, IF over THEN {413} ELSE {})
             ELSE IF clBad THEN Ref({400}, e + 4)
             ELSE IF clOK /\ clv > 0 /\ clv >= cfg.maxb THEN Ref({413}, e + 4)
             ELSE LET n == clv
                  IN IF Len(s) < e + 3 + n THEN Inc(Len(s) + 1)
                     (* Transfer-Encoding on a request that is not HTTP/1.1: refuse, or process and close *)
                     ELSE mk(Slice(s, e + 4, e + 3 + n), e + 4 + n, baseClose \/ Len(tes) > 0, Len(tes) > 0, (IF Len(tes) > 0 THEN {501} ELSE {}))
=============================================================================
