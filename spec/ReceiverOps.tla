---------------------------- MODULE ReceiverOps ----------------------------
(* waitress.receiver.ChunkedReceiver.received() transcribed: the incremental   *)
(* decoder of a chunked body, fed one read at a time.  The state is the        *)
(* object's attributes; Feed(r, s) is one call: the successor state and the    *)
(* number of bytes consumed.  Framing.tla's Chunks / Trailer are the reference *)
(* (RFC 9112 section 7.1) on whole byte strings and know nothing of reads.     *)
EXTENDS Framing

R0 == [rem |-> 0, vce |-> FALSE, ctl |-> <<>>, cend |-> <<>>, all |-> FALSE, trailer |-> <<>>,
       completed |-> FALSE, error |-> "", body |-> <<>>]

Drop(s, n) == IF n >= Len(s) THEN <<>> ELSE SubSeq(s, n + 1, Len(s))
Take(s, n) == IF n >= Len(s) THEN s ELSE SubSeq(s, 1, n)
(* bytes.find(b"\r\n"): 0-based position or -1 *)
FindCRLF0(s) == LET S == {j \in 1..(Len(s) - 1) : s[j] = 13 /\ s[j + 1] = 10} IN IF S = {} THEN -1 ELSE SetMin(S) - 1
(* utilities.find_double_newline: position just after CRLFCRLF or -1 *)
FindDouble(s) == LET S == {j \in 1..(Len(s) - 3) : s[j] = 13 /\ s[j + 1] = 10 /\ s[j + 2] = 13 /\ s[j + 3] = 10}
                 IN IF S = {} THEN -1 ELSE SetMin(S) + 3

(* lines of x separated by CRLF (bytes.split(b"\r\n")) *)
RECURSIVE SplitCRLF(_)
SplitCRLF(x) == LET p == FindCRLF0(x) IN IF p < 0 THEN <<x>> ELSE <<Take(x, p)>> \o SplitCRLF(Drop(x, p + 2))

(* the trailer check: a line that starts with SP / HTAB is joined to the previous one (as get_header_lines does in the
   header section); every joined line is free of bare CR / LF and matches HEADER_FIELD_RE *)
RECURSIVE JoinFolded(_, _, _)
JoinFolded(lines, i, acc) ==
  IF i > Len(lines) THEN acc
  ELSE IF Len(acc) > 0 /\ Len(lines[i]) > 0 /\ Ws(lines[i][1])
          THEN JoinFolded(lines, i + 1, [acc EXCEPT ![Len(acc)] = @ \o lines[i]])
          ELSE JoinFolded(lines, i + 1, Append(acc, lines[i]))
TrailerLinesOK(lines, i, previous) ==
  LET js == JoinFolded(lines, 1, <<>>)
  IN \A k \in 1..Len(js) : ~HasBareCRLF(js[k]) /\ Field(js[k]).ok

RECURSIVE Loop(_, _, _)
Loop(r, s, orig) ==
  IF s = <<>> THEN [r |-> r, consumed |-> orig]
  ELSE IF r.rem > 0 THEN
         LET w == Min2(Len(s), r.rem)
         IN Loop([r EXCEPT !.body = @ \o Take(s, w), !.rem = @ - w, !.vce = (r.rem - w = 0) \/ @], Drop(s, w), orig)
  ELSE IF r.vce THEN
         LET s2 == r.cend \o s
             pos == FindCRLF0(s2)
         IN IF pos < 0 /\ Len(s2) < 2 THEN [r |-> [r EXCEPT !.cend = s2], consumed |-> orig]
            ELSE IF pos = 0 THEN Loop([r EXCEPT !.cend = <<>>, !.vce = FALSE], Drop(s2, 2), orig)
            ELSE Loop([r EXCEPT !.cend = <<>>, !.vce = FALSE, !.error = "term", !.all = TRUE], s2, orig)
  ELSE IF ~r.all THEN
         LET s2 == r.ctl \o s
             pos == FindCRLF0(s2)
         IN IF pos < 0 THEN [r |-> [r EXCEPT !.ctl = s2], consumed |-> orig]
            ELSE LET line == Take(s2, pos)
                     s3 == Drop(s2, pos + 2)
                     semi == {i \in 1..Len(line) : line[i] = 59}
                     size == IF semi = {} THEN line ELSE Take(line, SetMin(semi) - 1)
                     ext == IF semi = {} THEN <<>> ELSE Drop(line, SetMin(semi) - 1)
                     r1 == [r EXCEPT !.ctl = <<>>]
                 IN IF line = <<>> THEN [r |-> [r1 EXCEPT !.error = "size", !.all = TRUE], consumed |-> orig]
                    ELSE IF semi # {} /\ ~ExtOK(ext) THEN [r |-> [r1 EXCEPT !.error = "ext", !.all = TRUE], consumed |-> orig]
                    ELSE IF ~(Len(size) > 0 /\ All(size, Hex)) THEN [r |-> [r1 EXCEPT !.error = "size", !.all = TRUE], consumed |-> orig]
                    ELSE LET sz == HexVal(size, 1, 0)
                         IN IF sz > 0 THEN Loop([r1 EXCEPT !.rem = sz], s3, orig)
                            ELSE Loop([r1 EXCEPT !.all = TRUE], s3, orig)
  ELSE LET t == r.trailer \o s
       IN IF Len(t) >= 2 /\ t[1] = 13 /\ t[2] = 10 THEN [r |-> [r EXCEPT !.completed = TRUE], consumed |-> orig - (Len(t) - 2)]
          ELSE LET pos == FindDouble(t)
               IN IF pos < 0 THEN [r |-> [r EXCEPT !.trailer = t], consumed |-> orig]
                  ELSE LET tr == Take(t, pos)
                           ok == TrailerLinesOK(SplitCRLF(Take(tr, pos - 4)), 1, FALSE)
                       IN [r |-> [r EXCEPT !.completed = TRUE, !.trailer = tr, !.error = IF ok \/ @ # "" THEN @ ELSE "trailer"],
                           consumed |-> orig - (Len(t) - pos)]

Feed(r, s) == IF r.completed THEN [r |-> r, consumed |-> 0] ELSE Loop(r, s, Len(s))

(* what the parser makes of the receiver after a call: an error ends the request, else completion does *)
Kind(r) == IF r.error # "" THEN "err" ELSE IF r.completed THEN "ok" ELSE "inc"

(* ---- the reference: the same bytes as one string, by the grammar ---- *)
RefOutcome(w) ==
  LET c == Chunks(w, 1, <<>>, 1)
  IN IF c.st = "bad" THEN [kind |-> "err", body |-> <<>>, used |-> 0]
     ELSE IF c.st = "inc" THEN [kind |-> "inc", body |-> <<>>, used |-> 0]
     ELSE LET t == Trailer(w, c.next)
          IN IF t.st = "bad" THEN [kind |-> "err", body |-> <<>>, used |-> 0]
             ELSE IF t.st = "inc" THEN [kind |-> "inc", body |-> <<>>, used |-> 0]
             ELSE [kind |-> "ok", body |-> c.body, used |-> t.next - 1]
=============================================================================
