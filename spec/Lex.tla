-------------------------------- MODULE Lex --------------------------------
(* The product automaton of C10: implementation DFA x call-site domain DFA x  *)
(* grammar automaton (LexOps.tla), explored by TLC over all 256 byte values.  *)
EXTENDS LexOps

CONSTANTS Bytes,                            \* byte values to explore (0..255, or one per joint class)
          IStart, IAcc, IClassOf, IDelta,   \* implementation DFA: class table + transition table
          DStart, DAcc, DClassOf, DDelta    \* domain DFA

VARIABLES qi, qd, qg, last
vars == <<qi, qd, qg, last>>

Init == qi = IStart /\ qd = DStart /\ qg = GInit /\ last = -1

Feed(b) == /\ qi' = IDelta[qi + 1][IClassOf[b + 1] + 1]
           /\ qd' = DDelta[qd + 1][DClassOf[b + 1] + 1]
           /\ qg' = GStep(qg, b)
           /\ last' = b

Next == \E b \in Bytes : Feed(b)
Spec == Init /\ [][Next]_vars

InDomain == qd \in DAcc
ImplAcc == qi \in IAcc
(* what the property states, for strings that can reach the gate at its call site *)
NothingOutsideGrammarAccepted == (InDomain /\ ImplAcc) => GAccUp(qg)
EverythingInGrammarAccepted == (InDomain /\ GAccLow(qg)) => ImplAcc
View == <<qi, qd, qg>>
=============================================================================
