-------------------------------- MODULE LexOps --------------------------------
(* Token languages of the framing-critical gates (C10).                       *)
(*                                                                            *)
(* For each gate the GRAMMAR is a hand-written deterministic automaton over   *)
(* bytes 0..255 taken from the ABNF of RFC 9110/9112 (GInit, GStep, GAccLow,  *)
(* GAccUp: strings the server MUST accept / MAY accept - equal except where   *)
(* the property leaves a choice).  The IMPLEMENTATION automaton (the compiled *)
(* regular expression in its match mode, composed with the call-site          *)
(* processing) and the DOMAIN automaton (byte strings that can reach the gate *)
(* at its call site) are extracted from the code in /repo at check time and   *)
(* supplied as tables by a generated module.  TLC explores the product        *)
(* automaton over all 256 byte values: the reachable product is finite, so    *)
(* the invariant decides the language inclusion for strings of EVERY length.  *)
EXTENDS Integers, Sequences, FiniteSets, TLC

CONSTANTS Gate           \* "digit" | "hex" | "ext" | "hdr" | "req"

Digit(b) == b \in 48..57
Hex(b) == Digit(b) \/ b \in 65..70 \/ b \in 97..102
Alpha(b) == b \in 65..90 \/ b \in 97..122
Tchar(b) == Digit(b) \/ Alpha(b) \/ b \in {33, 35, 36, 37, 38, 39, 42, 43, 45, 46, 94, 95, 96, 124, 126}
Vchar(b) == b \in 33..126
Obs(b) == b \in 128..255
Ws(b) == b = 32 \/ b = 9
Qdtext(b) == b = 9 \/ b = 32 \/ b = 33 \/ b \in 35..91 \/ b \in 93..126 \/ Obs(b)
Qpair(b) == b = 9 \/ b = 32 \/ Vchar(b) \/ Obs(b)

(* ---- 1*DIGIT and 1*HEXDIG ---- *)
NumStep(q, b, isd) == IF q = "dead" THEN "dead" ELSE IF isd THEN "num" ELSE "dead"

(* ---- chunk-ext = *( ";" token [ "=" ( token / quoted-string ) ] ) ---- *)
ExtStep(q, b) ==
  CASE q = "e0"   -> IF b = 59 THEN "name0" ELSE "dead"             \* expect ';'
    [] q = "name0"-> IF Tchar(b) THEN "name" ELSE "dead"
    [] q = "name" -> IF Tchar(b) THEN "name" ELSE IF b = 61 THEN "val0" ELSE IF b = 59 THEN "name0" ELSE "dead"
    [] q = "val0" -> IF Tchar(b) THEN "vtok" ELSE IF b = 34 THEN "quot" ELSE "dead"
    [] q = "vtok" -> IF Tchar(b) THEN "vtok" ELSE IF b = 59 THEN "name0" ELSE "dead"
    [] q = "quot" -> IF b = 34 THEN "qend" ELSE IF b = 92 THEN "qesc" ELSE IF Qdtext(b) THEN "quot" ELSE "dead"
    [] q = "qesc" -> IF Qpair(b) THEN "quot" ELSE "dead"
    [] q = "qend" -> IF b = 59 THEN "name0" ELSE "dead"
    [] OTHER      -> "dead"
ExtAcc(q) == q \in {"e0", "name", "vtok", "qend"}

(* ---- field-line = token ":" OWS field-value OWS ---- *)
HdrStep(q, b) ==
  CASE q = "n0" -> IF Tchar(b) THEN "n" ELSE "dead"
    [] q = "n"  -> IF Tchar(b) THEN "n" ELSE IF b = 58 THEN "o" ELSE "dead"
    [] q = "o"  -> IF Ws(b) THEN "o" ELSE IF Vchar(b) \/ Obs(b) THEN "v" ELSE "dead"
    [] q = "v"  -> IF Ws(b) THEN "w" ELSE IF Vchar(b) \/ Obs(b) THEN "v" ELSE "dead"
    [] q = "w"  -> IF Ws(b) THEN "w" ELSE IF Vchar(b) \/ Obs(b) THEN "v" ELSE "dead"
    [] OTHER    -> "dead"
HdrAcc(q) == q \in {"o", "v", "w"}

(* ---- request-line = token SP target [ SP "HTTP/" DIGIT "." DIGIT ] ---- *)
(* state = <<q, obs>>: obs records that the target contained obs-text (the    *)
(* property does not say whether such a target is accepted).                  *)
ReqStep(s, b) ==
  LET q == s[1] o == s[2] IN
  CASE q = "m0" -> IF Tchar(b) THEN <<"m", o>> ELSE <<"dead", o>>
    [] q = "m"  -> IF Tchar(b) THEN <<"m", o>> ELSE IF b = 32 THEN <<"t0", o>> ELSE <<"dead", o>>
    [] q = "t0" -> IF Vchar(b) THEN <<"t", o>> ELSE IF Obs(b) THEN <<"t", TRUE>> ELSE <<"dead", o>>
    [] q = "t"  -> IF Vchar(b) THEN <<"t", o>> ELSE IF Obs(b) THEN <<"t", TRUE>> ELSE IF b = 32 THEN <<"H", o>> ELSE <<"dead", o>>
    [] q = "H"  -> IF b = 72 THEN <<"T1", o>> ELSE <<"dead", o>>
    [] q = "T1" -> IF b = 84 THEN <<"T2", o>> ELSE <<"dead", o>>
    [] q = "T2" -> IF b = 84 THEN <<"P", o>> ELSE <<"dead", o>>
    [] q = "P"  -> IF b = 80 THEN <<"sl", o>> ELSE <<"dead", o>>
    [] q = "sl" -> IF b = 47 THEN <<"d1", o>> ELSE <<"dead", o>>
    [] q = "d1" -> IF Digit(b) THEN <<"dot", o>> ELSE <<"dead", o>>
    [] q = "dot"-> IF b = 46 THEN <<"d2", o>> ELSE <<"dead", o>>
    [] q = "d2" -> IF Digit(b) THEN <<"end", o>> ELSE <<"dead", o>>
    [] OTHER    -> <<"dead", o>>

GInit == CASE Gate = "digit" -> "s" [] Gate = "hex" -> "s" [] Gate = "ext" -> "e0"
           [] Gate = "hdr" -> "n0" [] Gate = "req" -> <<"m0", FALSE>>

GStep(q, b) == CASE Gate = "digit" -> NumStep(q, b, Digit(b))
                 [] Gate = "hex"   -> NumStep(q, b, Hex(b))
                 [] Gate = "ext"   -> ExtStep(q, b)
                 [] Gate = "hdr"   -> HdrStep(q, b)
                 [] Gate = "req"   -> ReqStep(q, b)

GAccUp(q) == CASE Gate \in {"digit", "hex"} -> q = "num"
               [] Gate = "ext" -> ExtAcc(q)
               [] Gate = "hdr" -> HdrAcc(q)
               [] Gate = "req" -> q[1] \in {"t", "end"}
GAccLow(q) == IF Gate = "req" THEN GAccUp(q) /\ ~q[2] ELSE GAccUp(q)

RECURSIVE GRun(_, _, _)
GRun(q, bytes, i) == IF i > Len(bytes) THEN q ELSE GRun(GStep(q, bytes[i]), bytes, i + 1)
MustAccept(bytes) == GAccLow(GRun(GInit, bytes, 1))
MayAccept(bytes) == GAccUp(GRun(GInit, bytes, 1))

=============================================================================
