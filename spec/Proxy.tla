------------------------------- MODULE Proxy -------------------------------
(* Forwarding headers (C15, C16).  The vocabulary of header elements with     *)
(* their meaning lives here: cls = "ok" (interpretable: addr/port/host/       *)
(* scheme given), "bad" (syntactically uninterpretable - bad quoting, pair     *)
(* without "=", padding, several values: 400 wherever it stands among the     *)
(* trusted hops), "bads" (interpretable syntax, unusable meaning - empty host,*)
(* unsupported scheme: 400 when it is the hop the metadata is taken from),    *)
(* "free" (the statement is silent: anything but a crash).                    *)
(* The harness builds the raw header values from vocabulary indices, runs     *)
(* the REAL server (proxy middleware installed by server.py) and records, per *)
(* case, up to three executions:  full = the request as generated,            *)
(* bare = the same request without any proxy header, cut = the same request   *)
(* with every hop list cut down to its trusted suffix and untrusted kinds     *)
(* removed.  TLC evaluates the clauses.                                       *)
EXTENDS Integers, Sequences, FiniteSets, TLC, Json, IOUtils

E(raw, cls, a, p) == [raw |-> raw, cls |-> cls, a |-> a, p |-> p]

(* X-Forwarded-For elements: a = address, p = port *)
VFor == << E("192.0.2.1", "ok", "192.0.2.1", ""), E("198.51.100.7:8123", "ok", "198.51.100.7", "8123"),
           E("[2001:db8::1]", "ok", "2001:db8::1", ""), E("2001:db8::2", "ok", "2001:db8::2", ""),
           E("\"192.0.2.3\"", "ok", "192.0.2.3", ""), E("unknown", "ok", "unknown", ""),
           E("\"192.0.2", "bad", "", ""), E("\"", "bad", "", ""), E("192.0.2.4\"", "bad", "", ""),
           E("", "free", "", ""), E(":80", "free", "", ""), E("[", "free", "", ""), E("]", "free", "", ""),
           E("[2001:db8::9]:4711", "free", "", ""), E("\" \"", "free", "", "") >>

(* X-Forwarded-Host elements: a = host, p = port *)
VHost == << E("example.com", "ok", "example.com", ""), E("example.org:8443", "ok", "example.org", "8443"),
            E("\"quoted.example\"", "ok", "quoted.example", ""), E("[2001:db8::5]", "ok", "[2001:db8::5]", ""),
            E("\"bad.example", "bad", "", ""), E(":80", "bads", "", ""),
            E("", "free", "", ""), E("[", "free", "", ""), E("a:b:c", "free", "", "") >>

(* X-Forwarded-Proto whole values: a = scheme *)
VProto == << E("http", "ok", "http", ""), E("https", "ok", "https", ""), E("HTTPS", "ok", "https", ""), E("\"https\"", "ok", "https", ""),
             E("ftp", "bads", "", ""), E("http, https", "bad", "", ""), E("\"https", "bad", "", ""), E("", "free", "", "") >>

(* X-Forwarded-Port whole values: p = port *)
VPort == << E("80", "ok", "", "80"), E("443", "ok", "", "443"), E("8080", "ok", "", "8080"), E("\"8443\"", "ok", "", "8443"),
            E("80, 443", "bad", "", ""), E("\"80", "bad", "", ""), E("", "free", "", "") >>

(* Forwarded elements: fa/fp = for address/port, ha/hp = host/port, sch = proto *)
F(raw, cls, fa, fp, ha, hp, sch) == [raw |-> raw, cls |-> cls, fa |-> fa, fp |-> fp, ha |-> ha, hp |-> hp, sch |-> sch]
VFwd == << F("for=192.0.2.1", "ok", "192.0.2.1", "", "", "", ""),
           F("for=198.51.100.2;host=example.com;proto=https", "ok", "198.51.100.2", "", "example.com", "", "https"),
           F("For=\"[2001:db8::1]:4711\";HOST=\"example.org:8443\";Proto=http", "ok", "2001:db8::1", "4711", "example.org", "8443", "http"),
           F("for=203.0.113.9;by=203.0.113.1", "ok", "203.0.113.9", "", "", "", ""),
           F("host=only.example", "ok", "", "", "only.example", "", ""),
           F("proto=http", "ok", "", "", "", "", "http"),
           F("for=192.0.2.60;unknowntoken=1", "ok", "192.0.2.60", "", "", "", ""),
           F("for", "bad", "", "", "", "", ""), F("for=192.0.2.1; host=padded.example", "bad", "", "", "", "", ""),
           F("for= 192.0.2.1", "bad", "", "", "", "", ""), F("for=\"192.0.2", "bad", "", "", "", "", ""),
           F("proto=ftp", "bads", "", "", "", "", ""), F("host=:80", "bads", "", "", "", "", ""),
           (* an empty list element is a hop that says nothing: it is counted like any other element, so that what
              stands to the left of the trusted hops can never be selected *)
           F("", "ok", "", "", "", "", ""), F("for=:80", "free", "", "", "", "", ""), F("for=\" \"", "free", "", "", "", "", ""),
           F("for=[", "free", "", "", "", "", ""), F(";", "free", "", "", "", "", ""), F("for=_hidden;proto=https;host=", "free", "", "", "", "", "") >>

Vocab == [xff |-> VFor, xfh |-> VHost, xfproto |-> VProto, xfport |-> VPort, fwd |-> VFwd]

-----------------------------------------------------------------------------
Traces == JsonDeserialize(IOEnv.WV_TRACES)
VARIABLES tid, l, st, verdict

Meta == {"REMOTE_ADDR", "REMOTE_HOST", "REMOTE_PORT", "SERVER_NAME", "SERVER_PORT", "HTTP_HOST", "wsgi.url_scheme"}
ProxyKeys == {"HTTP_FORWARDED", "HTTP_X_FORWARDED_FOR", "HTTP_X_FORWARDED_HOST", "HTTP_X_FORWARDED_PROTO", "HTTP_X_FORWARDED_PORT", "HTTP_X_FORWARDED_BY"}

Cl(cond, name) == IF cond THEN {} ELSE {name}
Elems(V, idx) == [i \in 1..Len(idx) |-> V[idx[i]]]
(* the trusted_proxy_count-th hop from the right, the leftmost if there are fewer *)
HopFromRight(list, count) == IF Len(list) >= count THEN list[Len(list) - count + 1] ELSE list[1]
Suffix(list, count) == IF Len(list) <= count THEN list ELSE SubSeq(list, Len(list) - count + 1, Len(list))
Has(env, k) == k \in DOMAIN env
SameMeta(e1, e2) == \A k \in Meta : (Has(e1, k) <=> Has(e2, k)) /\ (Has(e1, k) => e1[k] = e2[k])

AnyCls(list, c) == \E i \in 1..Len(list) : list[i].cls = c
AllOk(list) == \A i \in 1..Len(list) : list[i].cls = "ok"

(* e = [cfg, hdr, full, bare, cut]; cfg = [trusted, count, kinds, clear]      *)
(* hdr.<k> = sequence of vocabulary indices (<<>> = header absent);           *)
(* full/bare/cut = [status, raised, env]                                      *)
TFail(s, e) ==
  LET cfg == e.cfg
      kinds == {cfg.kinds[i] : i \in 1..Len(cfg.kinds)}
      xff == Elems(VFor, e.hdr.xff)     xfh == Elems(VHost, e.hdr.xfh)
      xfp == Elems(VProto, e.hdr.xfproto)  xfo == Elems(VPort, e.hdr.xfport)
      fwd == Elems(VFwd, e.hdr.fwd)
      useF == "forwarded" \in kinds
      tFor == IF "x-forwarded-for" \in kinds THEN Suffix(xff, cfg.count) ELSE <<>>
      tHost == IF "x-forwarded-host" \in kinds THEN Suffix(xfh, cfg.count) ELSE <<>>
      tProto == IF "x-forwarded-proto" \in kinds THEN xfp ELSE <<>>
      tPort == IF "x-forwarded-port" \in kinds THEN xfo ELSE <<>>
      tFwd == IF useF THEN Suffix(fwd, cfg.count) ELSE <<>>
      trustedLists == <<tFor, tHost, tProto, tPort, tFwd>>
      bad == \/ \E i \in 1..5 : AnyCls(trustedLists[i], "bad")
             \/ \E i \in 1..5 : Len(trustedLists[i]) > 0 /\ trustedLists[i][1].cls = "bads"
      free == \/ \E i \in 1..5 : AnyCls(trustedLists[i], "free")
              \/ \E i \in 1..5 : AnyCls(trustedLists[i], "bads")
      (* malformed material to the left of the trusted hops may be refused or ignored *)
      leftBad == \/ ("x-forwarded-for" \in kinds /\ AnyCls(xff, "bad")) \/ ("x-forwarded-host" \in kinds /\ AnyCls(xfh, "bad"))
                 \/ (useF /\ AnyCls(fwd, "bad"))
      wellformed == ~bad /\ ~free /\ ~leftBad
      env == e.full.env
  IN
  IF ~cfg.trusted THEN
       Cl(~e.full.raised /\ e.full.status = 200, "P15_untrusted_peer_request_served_normally")
  \cup Cl(e.full.raised \/ e.full.status # 200 \/ SameMeta(env, e.bare.env), "P15_untrusted_headers_do_not_change_connection_metadata")
  \cup Cl(e.full.raised \/ e.full.status # 200 \/ ~cfg.clear \/ \A k \in ProxyKeys : ~Has(env, k), "P15_untrusted_headers_cleared")
  ELSE
       Cl(~e.full.raised /\ e.full.status \in {200, 400}, "P16_never_an_unhandled_exception_or_500")
  \cup Cl(~bad \/ e.full.raised \/ e.full.status = 400, "P16_uninterpretable_header_yields_400")
  \cup Cl(~wellformed \/ e.full.raised \/ e.full.status = 200, "P16_interpretable_headers_are_served")
  \cup Cl(~(wellformed /\ e.full.status = 200 /\ e.cut.status = 200) \/ SameMeta(env, e.cut.env), "P16_only_trusted_hops_and_kinds_affect_metadata")
  \cup Cl(~(wellformed /\ e.full.status = 200 /\ e.cut.status = 200) \/
          \A k \in ProxyKeys : (Has(env, k) <=> Has(e.cut.env, k)) /\ (Has(env, k) => env[k] = e.cut.env[k]), "P16_left_hops_and_untrusted_kinds_hidden_from_application")
  \cup Cl(~(wellformed /\ e.full.status = 200 /\ Len(tFor) > 0) \/
          (env["REMOTE_ADDR"] = tFor[1].a /\ (tFor[1].p = "" \/ env["REMOTE_PORT"] = tFor[1].p)), "P16_client_address_from_the_trusted_hop")
  \cup Cl(~(wellformed /\ e.full.status = 200 /\ Len(tHost) > 0) \/
          (env["SERVER_NAME"] = tHost[1].a /\ (tHost[1].p = "" \/ env["SERVER_PORT"] = tHost[1].p)), "P16_host_from_the_trusted_hop")
  \cup Cl(~(wellformed /\ e.full.status = 200 /\ Len(tProto) > 0) \/ env["wsgi.url_scheme"] = tProto[1].a, "P16_scheme_from_trusted_header")
  \cup Cl(~(wellformed /\ e.full.status = 200 /\ Len(tPort) > 0 /\ (Len(tHost) = 0 \/ tHost[1].p = "")) \/ env["SERVER_PORT"] = tPort[1].p, "P16_port_from_trusted_header")
  \cup Cl(~(wellformed /\ e.full.status = 200 /\ Len(tFwd) > 0 /\ tFwd[1].fa # "") \/
          (env["REMOTE_ADDR"] = tFwd[1].fa /\ (tFwd[1].fp = "" \/ env["REMOTE_PORT"] = tFwd[1].fp)), "P16_client_address_from_the_trusted_hop")
  \cup Cl(~(wellformed /\ e.full.status = 200 /\ Len(tFwd) > 0 /\ tFwd[1].ha # "") \/
          (env["SERVER_NAME"] = tFwd[1].ha /\ (tFwd[1].hp = "" \/ env["SERVER_PORT"] = tFwd[1].hp)), "P16_host_from_the_trusted_hop")
  \cup Cl(~(wellformed /\ e.full.status = 200 /\ Len(tFwd) > 0 /\ tFwd[1].sch # "") \/ env["wsgi.url_scheme"] = tFwd[1].sch, "P16_scheme_from_trusted_header")

TInit(cfg) == [n |-> 0]
TDrift(s, e) == {}
TUpd(s, e) == [n |-> s.n + 1]
TFinal(s) == {}
CONSTANT Focus
TFailF(s, e) == TFail(s, e) \cap Focus
TB == INSTANCE TraceBatch WITH InitSt <- TInit, Fail <- TFailF, Drift <- TDrift, Upd <- TUpd, Final <- TFinal
TraceSpec == TB!Spec

(* a one-state specification that only publishes the vocabulary *)
VocabSpec == tid = 0 /\ l = 0 /\ st = 0 /\ verdict = "v" /\ [][FALSE]_<<tid, l, st, verdict>>
PublishVocab == PrintT(<<"VOCAB", ToJson(Vocab)>>)
=============================================================================
