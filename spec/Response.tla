------------------------------ MODULE Response ------------------------------
(* Response framing, head integrity and the failure ladder (C03, C08, C09).   *)
(* One case = one exchange on the real server: the request facts (version,    *)
(* Connection header, method), the application script (status, declared       *)
(* Content-Length relation, chunk sizes, write()/list/generator/file wrapper, *)
(* failure point and exception class, disconnect point), the configuration    *)
(* (expose_tracebacks, log_socket_errors) and the observation: the wire as    *)
(* lexed by an independent client-side reader, whether the connection was     *)
(* closed, whether the pipelined next request was served, close() counters.   *)
(* Expected body, delimitation and persistence are computed here.             *)
EXTENDS Integers, Sequences, FiniteSets, TLC, Json, IOUtils

CONSTANT Focus
Traces == JsonDeserialize(IOEnv.WV_TRACES)
VARIABLES tid, l, st, verdict

Cl(cond, name) == IF cond THEN {} ELSE {name}
Min2(a, b) == IF a < b THEN a ELSE b

RECURSIVE Flat(_, _)
Flat(chunks, i) == IF i > Len(chunks) THEN <<>> ELSE [j \in 1..chunks[i] |-> 96 + i] \o Flat(chunks, i + 1)
RECURSIVE Sum(_, _)
Sum(chunks, i) == IF i > Len(chunks) THEN 0 ELSE chunks[i] + Sum(chunks, i + 1)

Code(status) == status.code          \* the harness passes [text, code]
NoBodyStatus(c) == c \in 100..199 \/ c = 204 \/ c = 304

Total(sc) == Sum(sc.chunks, 1)
Declared(sc) == CASE sc.cl = "none" -> -1 [] sc.cl = "exact" -> Total(sc)
                  [] sc.cl = "larger" -> Total(sc) + 3 [] sc.cl = "smaller" -> (IF Total(sc) > 0 THEN Total(sc) - 1 ELSE 0)
BodyBearing(e) == e.req.method # "HEAD" /\ ~NoBodyStatus(Code(e.script.status))
ExpectBody(e) == IF ~BodyBearing(e) THEN <<>>
                 ELSE IF Declared(e.script) >= 0 THEN SubSeq(Flat(e.script.chunks, 1), 1, Min2(Declared(e.script), Total(e.script)))
                 ELSE Flat(e.script.chunks, 1)
TooFew(e) == BodyBearing(e) /\ Declared(e.script) > Total(e.script)

Finals(R) == SelectSeq(R, LAMBDA r : ~r.interim)
CountHdr(r, n, v) == Cardinality({i \in 1..Len(r.headers) : r.headers[i][1] = n /\ r.headers[i][2] = v})
ServerFields == {"date", "server", "via", "connection", "content-length", "transfer-encoding"}
Lower(n) == n   \* header names are compared through the harness-lowered copy

(* Did the failure strike before any output?  Through the iterable the head   *)
(* goes out with the first NON-EMPTY chunk; through the write() callable with *)
(* the first call whatever its size; close() runs after the last chunk.       *)
FailBeforeOutput(sc) ==
  CASE sc.fail \in {"call", "start_response"} -> TRUE
    [] sc.fail = "iter"  -> \A j \in 1..Min2(sc.fail_k, Len(sc.chunks)) : sc.chunks[j] = 0
    [] sc.fail = "write" -> sc.fail_k = 0
    [] sc.fail = "close" -> IF sc.use_write THEN Len(sc.chunks) = 0 ELSE \A j \in 1..Len(sc.chunks) : sc.chunks[j] = 0
    [] OTHER -> FALSE

(* ---------------------------------------------------------------- C03 *)
C03(e) ==
  LET o == e.obs
      F == Finals(o.responses)
      ok == e.script.fail = "none" /\ e.disc < 0
      r1 == F[1]
      nextServed == Len(F) >= 2 /\ F[2].complete /\ F[2].status = 200
      (* whatever produced the response (the application or the server's own error page): it does not announce
         both closing and keeping alive, and what it announces is what happens *)
      signal == IF e.disc >= 0 \/ Len(F) = 0 THEN {} ELSE
                   Cl(~(r1.close /\ r1.keepalive), "P03_persistence_signal_is_unambiguous")
              (* (a failure after the head was sent cannot take back what the head announced: closing wins, C09) *)
              \cup Cl(~(r1.complete /\ r1.keepalive /\ e.req.version = "1.0") \/ nextServed
                      \/ (e.script.fail # "none" /\ ~FailBeforeOutput(e.script)), "P03_unannounced_close_means_next_request_is_served")
  IN IF ~ok THEN
        (* a failure after the head was sent: the response can no longer be delimited as announced *)
        (IF e.disc < 0 /\ e.script.fail # "none" /\ ~FailBeforeOutput(e.script)
           THEN Cl(o.closed /\ Len(F) <= 1, "P03_failure_after_the_head_closes_the_connection") ELSE {})
        \cup signal
     ELSE Cl(o.wire_error = "" /\ o.garbage = 0, "P03_wire_is_a_sequence_of_complete_responses")
     \cup Cl(Len(F) >= 1, "P03_every_request_gets_a_response")
     \cup (IF Len(F) = 0 THEN {} ELSE
            Cl(r1.status = Code(e.script.status), "P03_client_recovers_status")
       \cup Cl(r1.version = e.req.version, "P03_response_version_matches_request")
       \cup Cl(CountHdr(r1, "X-App", "v1") = 1, "P03_client_recovers_application_headers")
       (* a complete response carries the application's bytes, cut at the declared length *)
       \cup Cl(~r1.complete \/ r1.body = ExpectBody(e), "P03_client_recovers_body_cut_at_declared_length")
       (* enough bytes for the announced framing => the client sees the end of the response *)
       \cup Cl(TooFew(e) \/ r1.complete, "P03_response_is_delimited_by_its_own_headers")
       (* the client cannot see the end => the connection is closed, never reused *)
       \cup Cl(r1.complete \/ (o.closed /\ Len(F) = 1), "P03_undelimitable_response_closes_the_connection")
       \cup Cl(~(~TooFew(e) /\ r1.complete /\ o.closed /\ Len(F) = 1) \/ r1.close, "P03_last_response_announces_connection_close")
       \cup Cl(~(r1.complete /\ ((e.req.version = "1.1" /\ ~r1.close) \/ (e.req.version = "1.0" /\ r1.keepalive))) \/ nextServed,
               "P03_unannounced_close_means_next_request_is_served")
       \cup Cl(~(e.req.version = "1.0" /\ ~r1.keepalive /\ r1.complete) \/ (o.closed /\ Len(F) = 1), "P03_http10_without_keepalive_is_closed")
       \cup Cl(~(r1.framing = "close") \/ (o.closed /\ r1.close), "P03_close_delimited_body_is_announced_and_closed")
       \cup Cl(~(r1.framing = "chunked") \/ e.req.version = "1.1", "P03_chunked_only_to_http11")
       \cup signal)

(* ---------------------------------------------------------------- C08 *)
(* strings are sequences of code points; -1 as the only element = not a str *)
HasCRLF(s) == \E i \in 1..Len(s) : s[i] \in {10, 13}
NotStr(s) == s = <<-1>>
NonLatin1(s) == \E i \in 1..Len(s) : s[i] > 255
HopByHop == {"connection", "keep-alive", "proxy-authenticate", "proxy-authorization", "te", "trailer", "transfer-encoding", "upgrade"}

C08(e) ==
  LET o == e.obs
      F == Finals(o.responses)
      fields == e.strs.fields       \* sequence of [n, v, lname] as the application supplied them
      mustRefuse == \/ HasCRLF(e.strs.status) \/ NotStr(e.strs.status)
                    \/ \E i \in 1..Len(fields) : HasCRLF(fields[i].n) \/ HasCRLF(fields[i].v) \/ NotStr(fields[i].n) \/ NotStr(fields[i].v)
                                                 \/ fields[i].lname \in HopByHop
      mayRefuse == mustRefuse \/ NonLatin1(e.strs.status) \/ \E i \in 1..Len(fields) : NonLatin1(fields[i].n) \/ NonLatin1(fields[i].v)
                              \/ fields[i].lname = "content-length"
      head == o.head_raw
      lines == o.head_lines          \* the head split on CRLF by the harness, as code point sequences
      LowerCP(c) == IF c \in 65..90 \/ (c \in 192..222 /\ c # 215) THEN c + 32 ELSE c
      (* the head line of application field i: its name in any letter case, ": ", its value unchanged *)
      LineIs(line, i) == LET n == fields[i].n v == fields[i].v IN
                           /\ Len(line) = Len(n) + 2 + Len(v)
                           /\ \A j \in 1..Len(n) : LowerCP(line[j]) = LowerCP(n[j])
                           /\ line[Len(n) + 1] = 58 /\ line[Len(n) + 2] = 32
                           /\ SubSeq(line, Len(n) + 3, Len(line)) = v
      SameField(i, j) == Len(fields[i].n) = Len(fields[j].n) /\ fields[i].v = fields[j].v
                         /\ \A x \in 1..Len(fields[i].n) : LowerCP(fields[i].n[x]) = LowerCP(fields[j].n[x])
      refused == Len(F) >= 1 /\ F[1].status = 500
  IN IF e.script.fail # "none" \/ e.disc >= 0 THEN {}
     ELSE Cl(~mustRefuse \/ refused \/ e.swallow, "P08_offending_strings_are_refused_with_500")   \* (an application that swallows the refusal answers for itself)
     \cup Cl(mayRefuse \/ ~refused, "P08_clean_strings_are_not_refused")
     \cup Cl(\A i \in 1..Len(head) : (head[i] = 13 => (i < Len(head) /\ head[i + 1] = 10)) /\ (head[i] = 10 => (i > 1 /\ head[i - 1] = 13)),
             "P08_only_CR_LF_in_the_head_are_line_terminators")
     \cup Cl(~(refused \/ (e.swallow /\ mustRefuse)) \/ ~o.app_strings_on_wire, "P08_refused_strings_are_never_emitted")
     \cup Cl(refused \/ mustRefuse \/ e.swallow \/ Len(lines) = 0 \/ \A i \in 1..Len(fields) :
             Cardinality({k \in 2..Len(lines) : LineIs(lines[k], i)}) = Cardinality({j \in 1..Len(fields) : SameField(i, j)}),
             "P08_each_application_field_is_one_head_line")
     \cup Cl(refused \/ mustRefuse \/ e.swallow \/ Len(lines) = 0 \/
             \A k \in 2..Len(lines) : (\E i \in 1..Len(fields) : LineIs(lines[k], i)) \/ o.line_names[k] \in ServerFields,
             "P08_other_head_lines_are_server_fields_only")
     \cup Cl(refused \/ mustRefuse \/ e.swallow \/ Len(lines) = 0 \/ o.status_line = e.strs.status, "P08_status_line_carries_the_application_status")

(* ---------------------------------------------------------------- C09 *)
C09(e) ==
  LET o == e.obs
      F == Finals(o.responses)
      f == e.script.fail
      failed == f # "none"
      (* did the failure strike before any output?  the head goes out with the first non-empty body
         chunk, or at the end; write(k)/iter(k) failures after a non-empty earlier chunk are after output *)
      before == failed /\ FailBeforeOutput(e.script)
      gotIter == f \in {"none", "iter", "close"} /\ ~(e.disc >= 0 /\ e.script.use_write)   \* the application returned its iterable to the server
  IN   Cl(o.escaped = <<>> /\ o.loop_errors = <<>>, "P09_no_exception_escapes_to_worker_or_loop")
  \cup Cl(~o.traceback_on_wire \/ e.cfg.expose, "P09_no_traceback_unless_expose_tracebacks")
  \cup Cl(~(failed /\ before /\ e.disc < 0) \/ (Len(F) >= 1 /\ F[1].status = 500 /\ F[1].complete), "P09_failure_before_output_gives_one_complete_500")
  \cup Cl(~(failed /\ e.disc < 0) \/ (o.closed /\ Len(F) <= 1), "P09_connection_closed_after_application_failure")
  \cup Cl(~(failed /\ ~before /\ e.disc < 0) \/ (Len(F) = 1 /\ F[1].status = Code(e.script.status)), "P09_no_further_bytes_after_failure_once_output_began")
  \cup Cl(~(gotIter /\ e.script.kind \in {"list", "gen"}) \/ o.iter_closed = 1, "P09_iterable_closed_exactly_once")
  \cup Cl(~(gotIter /\ e.script.kind \in {"file", "file_noseek"} /\ o.file_handed = 1) \/ o.file_closed = 1, "P09_wrapped_file_closed_exactly_once")
  \cup Cl(e.disc < 0 \/ o.closed, "P09_disconnected_client_connection_closed")
  \cup Cl(o.app_calls = 1, "P09_application_called_once")

TFailAll(s, e) == C03(e) \cup C08(e) \cup C09(e)
TFail(s, e) == TFailAll(s, e) \cap Focus
TInit(cfg) == [n |-> 0]
TDrift(s, e) == {}
TUpd(s, e) == [n |-> s.n + 1]
TFinal(s) == {}
TB == INSTANCE TraceBatch WITH InitSt <- TInit, Fail <- TFail, Drift <- TDrift, Upd <- TUpd, Final <- TFinal
TraceSpec == TB!Spec
=============================================================================
