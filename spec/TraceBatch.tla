--------------------------- MODULE TraceBatch ---------------------------
(* Batch trace validation.  A file of recorded traces (JSON: a sequence of   *)
(* records [id, cfg, ev]) is read once; every trace is one initial state and *)
(* is stepped event by event through the instantiating specification:        *)
(*   Fail(st, e)  = the set of NAMES of the clauses of the specification that *)
(*                  event e violates in state st ({} = the step is allowed)   *)
(*   Upd(st, e)   = the successor state                                      *)
(*   Drift(st, e) = names of MODEL-level clauses that e contradicts: reported  *)
(*                  (one DRIFT line) but not fatal; Upd must then stop relying *)
(*                  on the implementation-shaped part of st                   *)
(* A trace ends in verdict "acc" or "rej"; every rejection prints one line    *)
(* <<"REJ", id, position, clauses>>.  The number of distinct states TLC       *)
(* reports is checked by the harness against the sum of the path lengths, so  *)
(* a silently skipped trace is detected.                                      *)
EXTENDS Naturals, Sequences, FiniteSets, TLC

CONSTANTS Traces, InitSt(_), Fail(_, _), Drift(_, _), Upd(_, _), Final(_)

VARIABLES tid, l, st, verdict

vars == <<tid, l, st, verdict>>

Init == /\ tid \in 1..Len(Traces)
        /\ l = 1
        /\ st = InitSt(Traces[tid].cfg)
        /\ verdict = "run"

Step == /\ verdict = "run"
        /\ l <= Len(Traces[tid].ev)
        /\ LET e == Traces[tid].ev[l]
               bad == Fail(st, e)
           IN IF bad = {}
                 THEN /\ st' = Upd(st, e)
                      /\ LET d == Drift(st, e)
                         IN IF d = {} THEN TRUE ELSE PrintT(<<"DRIFT", Traces[tid].id, l, d>>)
                      /\ l' = l + 1
                      /\ verdict' = "run"
                 ELSE /\ verdict' = "rej"
                      /\ PrintT(<<"REJ", Traces[tid].id, l, bad>>)
                      /\ UNCHANGED <<st, l>>
        /\ UNCHANGED tid

Finish == /\ verdict = "run"
          /\ l = Len(Traces[tid].ev) + 1
          /\ LET bad == Final(st)
             IN IF bad = {} THEN verdict' = "acc"
                ELSE /\ verdict' = "rej"
                     /\ PrintT(<<"REJ", Traces[tid].id, l, bad>>)
          /\ UNCHANGED <<tid, l, st>>

Next == Step \/ Finish

Spec == Init /\ [][Next]_vars
==========================================================================
