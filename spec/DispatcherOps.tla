--------------------------- MODULE DispatcherOps ---------------------------
(* ThreadedTaskDispatcher (src/waitress/task.py) at the code's atomicity: all  *)
(* shared state (queue, threads, stop_count, active_count) is touched only     *)
(* under self.lock, so every critical section - from acquiring the lock to     *)
(* releasing it or waiting on one of the two conditions - is one action.       *)
(* The state is a record s; every action is a pure operator s -> s', so that   *)
(* the same definitions serve model checking (Dispatcher.tla) and validation   *)
(* of traces recorded from the real class (Trace_Dispatcher.tla).              *)
EXTENDS Integers, Sequences, FiniteSets, TLC

CONSTANTS Workers,     \* worker numbers that may ever be used, e.g. 0..3
          Tasks,       \* task ids 1..n
          Follow,      \* Follow[t] = task that t's body submits when run (0 = none)
          Waits        \* Waits[t] = task whose execution t's body waits for before it returns (0 = none): a long poll

SetMin(S) == CHOOSE x \in S : \A y \in S : x <= y

RECURSIVE Smallest(_, _)
Smallest(S, k) == IF k = 0 \/ S = {} THEN {} ELSE LET m == SetMin(S) IN {m} \cup Smallest(S \ {m}, k - 1)

S0 == [queue |-> <<>>, threads |-> {}, stop |-> 0, active |-> 0, wq |-> <<>>,
       pc |-> [w \in Workers |-> "none"], held |-> [w \in Workers |-> 0],
       ran |-> [t \in Tasks |-> 0], cancelled |-> [t \in Tasks |-> 0],
       submitted |-> <<>>, removed |-> <<>>, requested |-> 0,
       sd |-> [pc |-> "none", cancel |-> FALSE, timedout |-> FALSE]]

(* queue_cv.notify(): the longest-waiting worker becomes runnable *)
NotifyQ(s) == IF s.wq = <<>> THEN s
              ELSE [s EXCEPT !.wq = Tail(@), !.pc[Head(s.wq)] = "woken"]

NotifyAllQ(s) == [s EXCEPT !.wq = <<>>,
                           !.pc = [w \in Workers |-> IF s.pc[w] = "waitq" THEN "woken" ELSE s.pc[w]]]

(* thread_exit_cv.notify() *)
NotifyExit(s) == IF s.sd.pc = "wait" THEN [s EXCEPT !.sd.pc = "woken"] ELSE s

(* add_task(t) *)
AddTask(s, t) == NotifyQ([s EXCEPT !.queue = Append(@, t), !.submitted = Append(@, t)])

(* set_thread_count(n) *)
SetCount(s, n) ==
  LET running == Cardinality(s.threads) - s.stop
  IN IF running < n
        THEN LET new == Smallest(Workers \ s.threads, n - running)
             IN [s EXCEPT !.threads = @ \cup new,
                          !.pc = [w \in Workers |-> IF w \in new THEN "outside" ELSE s.pc[w]],
                          !.active = @ + Cardinality(new),
                          !.requested = n]
        ELSE IF running > n
                THEN NotifyAllQ([s EXCEPT !.stop = @ + (running - n), !.requested = n])
                ELSE [s EXCEPT !.requested = n]

(* the body of handler_thread's critical section, lock held *)
Eval(s, w) ==
  IF s.queue = <<>> /\ s.stop = 0
     THEN [s EXCEPT !.active = @ - 1, !.pc[w] = "waitq", !.wq = Append(@, w)]
     ELSE IF s.stop > 0
             THEN NotifyExit([s EXCEPT !.active = @ - 1, !.stop = @ - 1,
                                       !.threads = @ \ {w}, !.pc[w] = "exited"])
             ELSE LET t == Head(s.queue)
                  IN [s EXCEPT !.queue = Tail(@), !.held[w] = t,
                               !.removed = Append(@, t), !.pc[w] = "run"]

HEnter(s, w)  == Eval(s, w)                                    \* pc = "outside"
HWake(s, w)   == Eval([s EXCEPT !.active = @ + 1], w)          \* pc = "woken"
HRun(s, w)    == LET t == s.held[w]                            \* pc = "run": task.service()
                 IN [s EXCEPT !.ran[t] = @ + 1,
                              !.pc[w] = IF Follow[t] # 0 THEN "follow" ELSE "outside"]
HFollow(s, w) == AddTask([s EXCEPT !.pc[w] = "outside"], Follow[s.held[w]])

WorkerEnabled(s, w) == /\ s.pc[w] \in {"outside", "woken", "run", "follow"}
                       /\ (IF s.pc[w] # "run" THEN TRUE
                           ELSE IF Waits[s.held[w]] = 0 THEN TRUE ELSE s.ran[Waits[s.held[w]]] > 0)
WorkerStep(s, w) == CASE s.pc[w] = "outside" -> HEnter(s, w)
                      [] s.pc[w] = "woken"   -> HWake(s, w)
                      [] s.pc[w] = "run"     -> HRun(s, w)
                      [] s.pc[w] = "follow"  -> HFollow(s, w)

(* shutdown(cancel_pending): set_thread_count(0); with lock: while threads: *)
(* (expired -> break) wait(0.1); if cancel: cancel queued, notify_all       *)
SDStart(s, cancel) == [SetCount(s, 0) EXCEPT !.sd = [pc |-> "enter", cancel |-> cancel, timedout |-> FALSE]]

RECURSIVE CancelAll(_, _)
CancelAll(c, q) == IF q = <<>> THEN c ELSE CancelAll([c EXCEPT ![Head(q)] = @ + 1], Tail(q))

SDFinish(s, to) ==
  IF s.sd.cancel
     THEN NotifyAllQ([s EXCEPT !.cancelled = CancelAll(@, s.queue),
                               !.removed = @ \o s.queue, !.queue = <<>>,
                               !.sd.pc = "done", !.sd.timedout = to])
     ELSE [s EXCEPT !.sd.pc = "done", !.sd.timedout = to]

(* lock (re)acquired at the top of the wait loop *)
SDLoop(s) == IF s.threads = {} THEN SDFinish(s, FALSE) ELSE [s EXCEPT !.sd.pc = "wait"]
(* the 0.1 s timed wait ran out and the deadline has passed *)
SDExpire(s) == SDFinish(s, TRUE)

-----------------------------------------------------------------------------
(* The property (C14) as state predicates over the history fields.           *)
Range(q) == {q[i] : i \in 1..Len(q)}

PExactlyOnce(s) == \A t \in Tasks : s.ran[t] + s.cancelled[t] <= 1

Where(s, t) == (IF t \in Range(s.queue) THEN 1 ELSE 0)
             + (IF \E w \in Workers : s.pc[w] = "run" /\ s.held[w] = t THEN 1 ELSE 0)
             + s.ran[t] + s.cancelled[t]

PAccounted(s) == \A t \in Range(s.submitted) : Where(s, t) = 1

PFifo(s) == s.removed \o s.queue = s.submitted

(* shutdown returned without timing out and nobody resized afterwards: every *)
(* worker has stopped; what was queued at that moment was cancelled (cancel)  *)
PShutdown(s) == (s.sd.pc = "done" /\ ~s.sd.timedout /\ s.requested = 0) => s.threads = {}

Idle(s) == \A w \in Workers : s.pc[w] \in {"none", "waitq", "exited"}
=============================================================================
