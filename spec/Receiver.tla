------------------------------ MODULE Receiver ------------------------------
(* Every way of cutting each input into reads, on the transcription of          *)
(* ChunkedReceiver (ReceiverOps): the outcome - refused / complete with this    *)
(* body after this many bytes / still incomplete - is the outcome of feeding    *)
(* the input in one piece (C02) and is what the grammar says (C01).            *)
EXTENDS ReceiverOps

CONSTANT Inputs            \* a set of byte strings (chunked bodies and near-misses, with bytes of a following message)
VARIABLES w, pos, r, used
vars == <<w, pos, r, used>>

Init == w \in Inputs /\ pos = 0 /\ r = R0 /\ used = 0
Final == r.completed \/ r.error # "" \/ pos = Len(w)
Next == /\ ~Final
        /\ \E k \in 1..(Len(w) - pos) :
             LET f == Feed(r, SubSeq(w, pos + 1, pos + k))
             IN r' = f.r /\ pos' = pos + k /\ used' = used + f.consumed
        /\ UNCHANGED w
Spec == Init /\ [][Next]_vars

One(x) == Feed(R0, x)
(* C02: whatever the cuts, the result is that of the uncut input *)
SegmentationIndependent ==
  Final => LET o == One(w) IN
           /\ Kind(r) = Kind(o.r)
           /\ (Kind(r) = "ok" => r.body = o.r.body /\ used = o.consumed)
           /\ (Kind(r) = "inc" => r.body = o.r.body)
(* C01: and it is the grammar's *)
AgreesWithGrammar ==
  pos = 0 => LET o == One(w) ref == RefOutcome(w) IN
             /\ Kind(o.r) = ref.kind
             /\ (ref.kind = "ok" => o.r.body = ref.body /\ o.consumed = ref.used)
(* never more consumed than fed, nothing consumed after completion *)
ConsumedBounded == used <= pos
=============================================================================
