------------------------------ MODULE Channel ------------------------------
(* One connection of waitress at the code's atomicity: the I/O thread          *)
(* (wasyncore.poll + HTTPChannel.readable/writable/handle_read/handle_write/    *)
(* received/handle_close), the worker threads (HTTPChannel.service, write_soon, *)
(* _flush_some), the trigger and the task hand-off, with one step per visible   *)
(* operation: every lock operation, every socket / pipe / select call and       *)
(* every access to requests, total_outbufs_len, will_close, close_when_flushed  *)
(* and connected (the attributes that are touched outside their lock).          *)
(* Label names are <function>_<kind>_<object>; the binding layer records the    *)
(* same triple for every visible operation of the real code.                    *)
(*                                                                             *)
(* Scenario constants: Sends = what the client sends (sequence of reads, each   *)
(* a sequence of complete requests [rid, close]), Lookahead, SendBytes, the     *)
(* socket room pattern, number of workers.  A response is RespUnits write_soon  *)
(* calls.  Not modelled in this slice: Expect/100-continue, the watermark wait, *)
(* socket faults, buffer rotation (see DESIGN.md for the slices).               *)
EXTENDS Integers, Sequences, FiniteSets, TLC

CONSTANTS Sends, Lookahead, SendBytes, HWM, Workers, RoomInit, ClientReads, RespUnits

Min2(a, b) == IF a < b THEN a ELSE b
NoReq == [rid |-> 0, close |-> FALSE]
AllReqs == UNION {{Sends[i][j] : j \in 1..Len(Sends[i])} : i \in 1..Len(Sends)}
RECURSIVE FlatSends(_)
FlatSends(i) == IF i > Len(Sends) THEN <<>> ELSE Sends[i] \o FlatSends(i + 1)
ReqSeq == FlatSends(1)
Unit(r, k) == <<r, k>>
RespOf(r) == [k \in 1..RespUnits |-> Unit(r, k)]
RECURSIVE Concat(_, _)
Concat(seq, i) == IF i > Len(seq) THEN <<>> ELSE RespOf(seq[i].rid) \o Concat(seq, i + 1)
IsPrefix(a, b) == Len(a) <= Len(b) /\ SubSeq(b, 1, Len(a)) = a

(* --algorithm Channel {
variables
  (* ---- the channel object ---- *)
  requests = <<>>, willClose = FALSE, cwf = FALSE, connected = FALSE, total = 0,
  obufs = << <<>> >>,          \* outbufs: a FIFO of buffers, each a sequence of units not yet skipped
  rotate = FALSE,              \* current_outbuf_count has reached the mark: the next write starts a new buffer
  reqLock = "free", outOwner = "free", outCount = 0,
  (* ---- server / kernel ---- *)
  trig = 0, taskq = 0, accepted = FALSE, inMap = FALSE, sockOpen = FALSE,
  backlog = FALSE, inbox = <<>>, room = RoomInit, wire = <<>>, nclose = 0, blocked = 0,
  (* ---- history (not read by the modelled code) ---- *)
  started = <<>>, running = 0, decided = FALSE, execAfterDecision = FALSE, tornBy = <<>>, crashed = {};

define {
  Unlimited == -1
  CanSend == room = Unlimited \/ room > 0
  SockReadable == inbox # <<>>
  Pending == Len(obufs[1]) > 0 \/ Len(obufs) > 1
  WireIsPrefix == IsPrefix(wire, Concat(ReqSeq, 1))
  InOrderExactlyOnce == IsPrefix(started, [i \in 1..Len(ReqSeq) |-> ReqSeq[i].rid])
  OneAtATime == running <= 1
  NoExecAfterCloseDecision == ~execAfterDecision
  TornOnceByIO == Len(tornBy) <= 1 /\ \A i \in 1..Len(tornBy) : tornBy[i] = "io"
  NoCrash == crashed = {}
}

(* ------------------------------------------------------------------ client *)
process (client = "cl")
variables ci = 1, cr = 1;
{
cl_connect: backlog := TRUE;
cl_sloop:   while (ci <= Len(Sends)) {
cl_send:      inbox := Append(inbox, Sends[ci]);
              ci := ci + 1;
            };
cl_rloop:   while (cr <= Len(ClientReads)) {
cl_read:      await ClientReads[cr] # -2 \/ blocked > 0 \/ (~sockOpen /\ accepted);
              room := IF ClientReads[cr] < 0 \/ room = Unlimited THEN Unlimited ELSE room + ClientReads[cr];
              cr := cr + 1;
            };
}

(* ------------------------------------------------------------------ I/O thread *)
process (io = "io")
variables isr = FALSE, isw = FALSE, rdyT = FALSE, rdyR = FALSE, rdyW = FALSE, rdyL = FALSE,
          data = <<>>, piece = NoReq, locked = FALSE, chunk = <<>>, sent = 0, tmp = 0, outlen = 0;
{
io_poll:
  while (TRUE) {
    isr := FALSE; isw := FALSE;
    if (inMap) {
readable_rd_will_close:
      if (willClose) { goto writable_rd_total_outbufs_len; };
readable_rd_close_when_flushed:
      if (cwf) { goto writable_rd_total_outbufs_len; };
readable_rd_requests:
      if (Len(requests) > Lookahead) { goto writable_rd_total_outbufs_len; };
readable_rd_total_outbufs_len:
      isr := (total = 0);
writable_rd_total_outbufs_len:
      if (total > 0) { isw := TRUE; goto poll_select_loop; };
writable_rd_will_close:
      if (willClose) { isw := TRUE; goto poll_select_loop; };
writable_rd_close_when_flushed:
      isw := cwf;
    };
poll_select_loop:
    await trig > 0 \/ (~accepted /\ backlog) \/ (inMap /\ isr /\ SockReadable) \/ (inMap /\ isw /\ CanSend);
    rdyT := trig > 0; rdyL := ~accepted /\ backlog;
    rdyR := inMap /\ isr /\ SockReadable; rdyW := inMap /\ isw /\ CanSend;
io_accept:
    if (rdyL) {
accept_accept_L:
      accepted := TRUE; backlog := FALSE; sockOpen := TRUE; inMap := TRUE;
init_wr_connected:
      connected := TRUE;
init_wr_requests:
      requests := <<>>;
    };
io_trig:
    if (rdyT) {
recv_drain_trigger:
      trig := 0;
    };
io_read:
    if (rdyR /\ inMap) {
handle_read_event_rd_connected:
      skip;
recv_recv_sock:
      data := Head(inbox); inbox := Tail(inbox);
received_acq_requests_lock:
      await reqLock = "free"; reqLock := "io";
received_rd_will_close:
      if (willClose) { goto received_rel_requests_lock; };
received_rd_close_when_flushed:
      if (cwf) { goto received_rel_requests_lock; };
io_received_loop:
      while (data # <<>>) {
        piece := Head(data); data := Tail(data);
received_rd_requests:
        requests := Append(requests, piece);
received_rd_requests_2:
        if (Len(requests) = 1) { taskq := taskq + 1; };
      };
received_rel_requests_lock:
      reqLock := "free";
    };
io_write:
    if (rdyW /\ inMap) {
handle_write_event_rd_connected:
      skip;
handle_write_rd_requests:
      if (requests # <<>>) {
handle_write_rd_total_outbufs_len:
        if (total < SendBytes) { goto handle_write_rd_close_when_flushed; };
      };
flush_some_if_lockable_tryacq_outbuf_lock:
      if (outOwner = "free") {
        outOwner := "io"; outCount := 1; locked := TRUE;
        with (ob = IF Len(obufs[1]) = 0 /\ Len(obufs) > 1 THEN Tail(obufs) ELSE obufs) {
          obufs := ob; outlen := Len(ob[1]); chunk := ob[1];
        };
      } else { locked := FALSE; };
io_fs:
      if (locked) {
io_fs_loop:
        while (outlen > 0) {
send_send_sock_io:
          sent := IF room = Unlimited THEN Len(chunk) ELSE Min2(Len(chunk), room);
          wire := wire \o SubSeq(chunk, 1, sent);
          room := IF room = Unlimited THEN Unlimited ELSE room - sent;
          if (sent = 0) { blocked := blocked + 1; goto flush_some_if_lockable_rd_total_outbufs_len; }
          else if (sent > Len(obufs[1])) { crashed := crashed \cup {"io"}; goto flush_some_if_lockable_rd_total_outbufs_len; }
          else { obufs[1] := SubSeq(obufs[1], sent + 1, Len(obufs[1])); outlen := outlen - sent; };
flush_some_rd_total_outbufs_len_io:
          tmp := total;
flush_some_wr_total_outbufs_len_io:
          total := tmp - sent;
          if (outlen > 0) { chunk := obufs[1]; }
          else if (Len(obufs) > 1) { obufs := Tail(obufs); outlen := Len(obufs[1]); chunk := obufs[1]; };
        };
flush_some_if_lockable_rd_total_outbufs_len:
        if (total <= HWM) {
flush_some_if_lockable_notify_outbuf_lock:
          skip;
        };
flush_some_if_lockable_rel_outbuf_lock:
        outCount := 0; outOwner := "free"; locked := FALSE;
      };
handle_write_rd_close_when_flushed:
      if (cwf) {
handle_write_rd_total_outbufs_len_2:
        if (total = 0) {
handle_write_wr_close_when_flushed:
          cwf := FALSE;
handle_write_wr_will_close:
          willClose := TRUE; decided := TRUE;
        };
      };
handle_write_rd_will_close:
      if (willClose) {
handle_close_acq_outbuf_lock:
        await outOwner = "free"; outOwner := "io"; outCount := 1;
handle_close_wr_total_outbufs_len:
        total := 0; obufs := << <<>> >>;
handle_close_wr_connected:
        connected := FALSE;
handle_close_notify_outbuf_lock:
        skip;
handle_close_rel_outbuf_lock:
        outCount := 0; outOwner := "free";
close_wr_connected:
        connected := FALSE; inMap := FALSE;
close_close_sock:
        sockOpen := FALSE; nclose := nclose + 1; tornBy := Append(tornBy, "io");
      };
    };
  };
}

(* ------------------------------------------------------------------ workers *)
process (worker \in Workers)
variables req = NoReq, u = 1, wchunk = <<>>, wsent = 0, wflushed = FALSE, wtmp = 0, woutlen = 0, closeOnFinish = FALSE, aborted = FALSE, wrote = FALSE;
{
w_idle:
  while (TRUE) {
service_rd_requests:
    await taskq > 0;
    taskq := taskq - 1;
    if (requests = <<>>) { crashed := crashed \cup {self}; goto w_idle; } else { req := Head(requests); };
service_rd_connected:
    closeOnFinish := req.close; aborted := ~connected; u := 1; wrote := FALSE;
    if (aborted) { goto w_after; };
execute_app_next:
    started := Append(started, req.rid); running := running + 1;
    execAfterDecision := execAfterDecision \/ decided;
w_units:
    while (u <= RespUnits) {
write_soon_rd_connected:
      if (~connected) { aborted := TRUE; goto w_after; };
write_soon_acq_outbuf_lock:
      await outOwner \in {"free", self}; outOwner := self; outCount := outCount + 1;
flush_outbufs_below_high_watermark_rd_total_outbufs_len:
      skip;    \* total > HWM never holds in this slice (HWM is large)
write_soon_rd_connected_2:
      if (~connected) { outCount := outCount - 1; if (outCount = 0) { outOwner := "free"; }; aborted := TRUE; goto w_after; };
write_soon_rd_total_outbufs_len:
      if (rotate) { obufs := Append(obufs, <<Unit(req.rid, u)>>); rotate := FALSE; }
      else { obufs[Len(obufs)] := Append(obufs[Len(obufs)], Unit(req.rid, u)); };
      wtmp := total; wrote := TRUE;
write_soon_wr_total_outbufs_len:
      total := wtmp + 1;
write_soon_rd_total_outbufs_len_2:
      wflushed := FALSE; wsent := 0;
      if (total >= SendBytes) {
        with (ob = IF Len(obufs[1]) = 0 /\ Len(obufs) > 1 THEN Tail(obufs) ELSE obufs) {
          obufs := ob; woutlen := Len(ob[1]); wchunk := ob[1];
        };
w_fs_loop:
        while (woutlen > 0) {
send_send_sock_w:
          wsent := IF room = Unlimited THEN Len(wchunk) ELSE Min2(Len(wchunk), room);
          wire := wire \o SubSeq(wchunk, 1, wsent);
          room := IF room = Unlimited THEN Unlimited ELSE room - wsent;
          if (wsent = 0) { blocked := blocked + 1; goto w_fs_after; }
          else if (wsent > Len(obufs[1])) { crashed := crashed \cup {self}; goto w_fs_after; }
          else { obufs[1] := SubSeq(obufs[1], wsent + 1, Len(obufs[1])); woutlen := woutlen - wsent; wflushed := TRUE; };
flush_some_rd_total_outbufs_len_w:
          wtmp := total;
flush_some_wr_total_outbufs_len_w:
          total := wtmp - wsent;
          if (woutlen > 0) { wchunk := obufs[1]; }
          else if (Len(obufs) > 1) { obufs := Tail(obufs); woutlen := Len(obufs[1]); wchunk := obufs[1]; };
        };
w_fs_after:
        if (wflushed) {
write_soon_rd_total_outbufs_len_3:
          if (total < SendBytes) { goto write_soon_rel_outbuf_lock; };
        };
physical_pull_pull_trigger_ws:
        trig := trig + 1;
      };
write_soon_rel_outbuf_lock:
      outCount := outCount - 1; if (outCount = 0) { outOwner := "free"; };
      u := u + 1;
    };
execute_app_next_2:
    running := running - 1;
w_after:
    if (aborted /\ running > 0 /\ req.rid \in {started[i] : i \in 1..Len(started)} /\ u <= RespUnits) { running := running - 1; };
    if (closeOnFinish \/ aborted) { goto service_acq_requests_lock_c; };
service_rd_will_close:
    if (~willClose) { goto service_rd_requests_2; };
service_acq_requests_lock_c:
    await reqLock = "free"; reqLock := self;
service_wr_close_when_flushed:
    cwf := TRUE; decided := TRUE;
service_rd_requests_c:
    skip;
service_wr_requests_c:
    requests := <<>>;
service_rel_requests_lock_c:
    reqLock := "free";
    goto service_rd_connected_4;
service_rd_requests_2:
    if (Len(requests) > 1) {
flush_outbufs_below_high_watermark_rd_total_outbufs_len_s:
      skip;
    };
w_rotate:
    rotate := rotate \/ wrote;
service_acq_requests_lock:
    await reqLock = "free"; reqLock := self;
service_rd_requests_3:
    if (requests = <<>>) { crashed := crashed \cup {self}; } else { requests := Tail(requests); };
service_rd_connected_2:
    if (connected) {
service_rd_requests_4:
      if (requests # <<>>) { taskq := taskq + 1; goto service_rel_requests_lock; };
    };
service_rd_connected_3:
    skip;
service_rel_requests_lock:
    reqLock := "free";
service_rd_connected_4:
    if (connected) {
physical_pull_pull_trigger_svc:
      trig := trig + 1;
    };
  };
}
} *)
\* BEGIN TRANSLATION
VARIABLES pc, requests, willClose, cwf, connected, total, obufs, rotate, 
          reqLock, outOwner, outCount, trig, taskq, accepted, inMap, sockOpen, 
          backlog, inbox, room, wire, nclose, blocked, started, running, 
          decided, execAfterDecision, tornBy, crashed

(* define statement *)
Unlimited == -1
CanSend == room = Unlimited \/ room > 0
SockReadable == inbox # <<>>
Pending == Len(obufs[1]) > 0 \/ Len(obufs) > 1
WireIsPrefix == IsPrefix(wire, Concat(ReqSeq, 1))
InOrderExactlyOnce == IsPrefix(started, [i \in 1..Len(ReqSeq) |-> ReqSeq[i].rid])
OneAtATime == running <= 1
NoExecAfterCloseDecision == ~execAfterDecision
TornOnceByIO == Len(tornBy) <= 1 /\ \A i \in 1..Len(tornBy) : tornBy[i] = "io"
NoCrash == crashed = {}

VARIABLES ci, cr, isr, isw, rdyT, rdyR, rdyW, rdyL, data, piece, locked, 
          chunk, sent, tmp, outlen, req, u, wchunk, wsent, wflushed, wtmp, 
          woutlen, closeOnFinish, aborted, wrote

vars == << pc, requests, willClose, cwf, connected, total, obufs, rotate, 
           reqLock, outOwner, outCount, trig, taskq, accepted, inMap, 
           sockOpen, backlog, inbox, room, wire, nclose, blocked, started, 
           running, decided, execAfterDecision, tornBy, crashed, ci, cr, isr, 
           isw, rdyT, rdyR, rdyW, rdyL, data, piece, locked, chunk, sent, tmp, 
           outlen, req, u, wchunk, wsent, wflushed, wtmp, woutlen, 
           closeOnFinish, aborted, wrote >>

ProcSet == {"cl"} \cup {"io"} \cup (Workers)

Init == (* Global variables *)
        /\ requests = <<>>
        /\ willClose = FALSE
        /\ cwf = FALSE
        /\ connected = FALSE
        /\ total = 0
        /\ obufs = << <<>> >>
        /\ rotate = FALSE
        /\ reqLock = "free"
        /\ outOwner = "free"
        /\ outCount = 0
        /\ trig = 0
        /\ taskq = 0
        /\ accepted = FALSE
        /\ inMap = FALSE
        /\ sockOpen = FALSE
        /\ backlog = FALSE
        /\ inbox = <<>>
        /\ room = RoomInit
        /\ wire = <<>>
        /\ nclose = 0
        /\ blocked = 0
        /\ started = <<>>
        /\ running = 0
        /\ decided = FALSE
        /\ execAfterDecision = FALSE
        /\ tornBy = <<>>
        /\ crashed = {}
        (* Process client *)
        /\ ci = 1
        /\ cr = 1
        (* Process io *)
        /\ isr = FALSE
        /\ isw = FALSE
        /\ rdyT = FALSE
        /\ rdyR = FALSE
        /\ rdyW = FALSE
        /\ rdyL = FALSE
        /\ data = <<>>
        /\ piece = NoReq
        /\ locked = FALSE
        /\ chunk = <<>>
        /\ sent = 0
        /\ tmp = 0
        /\ outlen = 0
        (* Process worker *)
        /\ req = [self \in Workers |-> NoReq]
        /\ u = [self \in Workers |-> 1]
        /\ wchunk = [self \in Workers |-> <<>>]
        /\ wsent = [self \in Workers |-> 0]
        /\ wflushed = [self \in Workers |-> FALSE]
        /\ wtmp = [self \in Workers |-> 0]
        /\ woutlen = [self \in Workers |-> 0]
        /\ closeOnFinish = [self \in Workers |-> FALSE]
        /\ aborted = [self \in Workers |-> FALSE]
        /\ wrote = [self \in Workers |-> FALSE]
        /\ pc = [self \in ProcSet |-> CASE self = "cl" -> "cl_connect"
                                        [] self = "io" -> "io_poll"
                                        [] self \in Workers -> "w_idle"]

cl_connect == /\ pc["cl"] = "cl_connect"
              /\ backlog' = TRUE
              /\ pc' = [pc EXCEPT !["cl"] = "cl_sloop"]
              /\ UNCHANGED << requests, willClose, cwf, connected, total, 
                              obufs, rotate, reqLock, outOwner, outCount, trig, 
                              taskq, accepted, inMap, sockOpen, inbox, room, 
                              wire, nclose, blocked, started, running, decided, 
                              execAfterDecision, tornBy, crashed, ci, cr, isr, 
                              isw, rdyT, rdyR, rdyW, rdyL, data, piece, locked, 
                              chunk, sent, tmp, outlen, req, u, wchunk, wsent, 
                              wflushed, wtmp, woutlen, closeOnFinish, aborted, 
                              wrote >>

cl_sloop == /\ pc["cl"] = "cl_sloop"
            /\ IF ci <= Len(Sends)
                  THEN /\ pc' = [pc EXCEPT !["cl"] = "cl_send"]
                  ELSE /\ pc' = [pc EXCEPT !["cl"] = "cl_rloop"]
            /\ UNCHANGED << requests, willClose, cwf, connected, total, obufs, 
                            rotate, reqLock, outOwner, outCount, trig, taskq, 
                            accepted, inMap, sockOpen, backlog, inbox, room, 
                            wire, nclose, blocked, started, running, decided, 
                            execAfterDecision, tornBy, crashed, ci, cr, isr, 
                            isw, rdyT, rdyR, rdyW, rdyL, data, piece, locked, 
                            chunk, sent, tmp, outlen, req, u, wchunk, wsent, 
                            wflushed, wtmp, woutlen, closeOnFinish, aborted, 
                            wrote >>

cl_send == /\ pc["cl"] = "cl_send"
           /\ inbox' = Append(inbox, Sends[ci])
           /\ ci' = ci + 1
           /\ pc' = [pc EXCEPT !["cl"] = "cl_sloop"]
           /\ UNCHANGED << requests, willClose, cwf, connected, total, obufs, 
                           rotate, reqLock, outOwner, outCount, trig, taskq, 
                           accepted, inMap, sockOpen, backlog, room, wire, 
                           nclose, blocked, started, running, decided, 
                           execAfterDecision, tornBy, crashed, cr, isr, isw, 
                           rdyT, rdyR, rdyW, rdyL, data, piece, locked, chunk, 
                           sent, tmp, outlen, req, u, wchunk, wsent, wflushed, 
                           wtmp, woutlen, closeOnFinish, aborted, wrote >>

cl_rloop == /\ pc["cl"] = "cl_rloop"
            /\ IF cr <= Len(ClientReads)
                  THEN /\ pc' = [pc EXCEPT !["cl"] = "cl_read"]
                  ELSE /\ pc' = [pc EXCEPT !["cl"] = "Done"]
            /\ UNCHANGED << requests, willClose, cwf, connected, total, obufs, 
                            rotate, reqLock, outOwner, outCount, trig, taskq, 
                            accepted, inMap, sockOpen, backlog, inbox, room, 
                            wire, nclose, blocked, started, running, decided, 
                            execAfterDecision, tornBy, crashed, ci, cr, isr, 
                            isw, rdyT, rdyR, rdyW, rdyL, data, piece, locked, 
                            chunk, sent, tmp, outlen, req, u, wchunk, wsent, 
                            wflushed, wtmp, woutlen, closeOnFinish, aborted, 
                            wrote >>

cl_read == /\ pc["cl"] = "cl_read"
           /\ ClientReads[cr] # -2 \/ blocked > 0 \/ (~sockOpen /\ accepted)
           /\ room' = (IF ClientReads[cr] < 0 \/ room = Unlimited THEN Unlimited ELSE room + ClientReads[cr])
           /\ cr' = cr + 1
           /\ pc' = [pc EXCEPT !["cl"] = "cl_rloop"]
           /\ UNCHANGED << requests, willClose, cwf, connected, total, obufs, 
                           rotate, reqLock, outOwner, outCount, trig, taskq, 
                           accepted, inMap, sockOpen, backlog, inbox, wire, 
                           nclose, blocked, started, running, decided, 
                           execAfterDecision, tornBy, crashed, ci, isr, isw, 
                           rdyT, rdyR, rdyW, rdyL, data, piece, locked, chunk, 
                           sent, tmp, outlen, req, u, wchunk, wsent, wflushed, 
                           wtmp, woutlen, closeOnFinish, aborted, wrote >>

client == cl_connect \/ cl_sloop \/ cl_send \/ cl_rloop \/ cl_read

io_poll == /\ pc["io"] = "io_poll"
           /\ isr' = FALSE
           /\ isw' = FALSE
           /\ IF inMap
                 THEN /\ pc' = [pc EXCEPT !["io"] = "readable_rd_will_close"]
                 ELSE /\ pc' = [pc EXCEPT !["io"] = "poll_select_loop"]
           /\ UNCHANGED << requests, willClose, cwf, connected, total, obufs, 
                           rotate, reqLock, outOwner, outCount, trig, taskq, 
                           accepted, inMap, sockOpen, backlog, inbox, room, 
                           wire, nclose, blocked, started, running, decided, 
                           execAfterDecision, tornBy, crashed, ci, cr, rdyT, 
                           rdyR, rdyW, rdyL, data, piece, locked, chunk, sent, 
                           tmp, outlen, req, u, wchunk, wsent, wflushed, wtmp, 
                           woutlen, closeOnFinish, aborted, wrote >>

poll_select_loop == /\ pc["io"] = "poll_select_loop"
                    /\ trig > 0 \/ (~accepted /\ backlog) \/ (inMap /\ isr /\ SockReadable) \/ (inMap /\ isw /\ CanSend)
                    /\ rdyT' = (trig > 0)
                    /\ rdyL' = (~accepted /\ backlog)
                    /\ rdyR' = (inMap /\ isr /\ SockReadable)
                    /\ rdyW' = (inMap /\ isw /\ CanSend)
                    /\ pc' = [pc EXCEPT !["io"] = "io_accept"]
                    /\ UNCHANGED << requests, willClose, cwf, connected, total, 
                                    obufs, rotate, reqLock, outOwner, outCount, 
                                    trig, taskq, accepted, inMap, sockOpen, 
                                    backlog, inbox, room, wire, nclose, 
                                    blocked, started, running, decided, 
                                    execAfterDecision, tornBy, crashed, ci, cr, 
                                    isr, isw, data, piece, locked, chunk, sent, 
                                    tmp, outlen, req, u, wchunk, wsent, 
                                    wflushed, wtmp, woutlen, closeOnFinish, 
                                    aborted, wrote >>

io_accept == /\ pc["io"] = "io_accept"
             /\ IF rdyL
                   THEN /\ pc' = [pc EXCEPT !["io"] = "accept_accept_L"]
                   ELSE /\ pc' = [pc EXCEPT !["io"] = "io_trig"]
             /\ UNCHANGED << requests, willClose, cwf, connected, total, obufs, 
                             rotate, reqLock, outOwner, outCount, trig, taskq, 
                             accepted, inMap, sockOpen, backlog, inbox, room, 
                             wire, nclose, blocked, started, running, decided, 
                             execAfterDecision, tornBy, crashed, ci, cr, isr, 
                             isw, rdyT, rdyR, rdyW, rdyL, data, piece, locked, 
                             chunk, sent, tmp, outlen, req, u, wchunk, wsent, 
                             wflushed, wtmp, woutlen, closeOnFinish, aborted, 
                             wrote >>

accept_accept_L == /\ pc["io"] = "accept_accept_L"
                   /\ accepted' = TRUE
                   /\ backlog' = FALSE
                   /\ sockOpen' = TRUE
                   /\ inMap' = TRUE
                   /\ pc' = [pc EXCEPT !["io"] = "init_wr_connected"]
                   /\ UNCHANGED << requests, willClose, cwf, connected, total, 
                                   obufs, rotate, reqLock, outOwner, outCount, 
                                   trig, taskq, inbox, room, wire, nclose, 
                                   blocked, started, running, decided, 
                                   execAfterDecision, tornBy, crashed, ci, cr, 
                                   isr, isw, rdyT, rdyR, rdyW, rdyL, data, 
                                   piece, locked, chunk, sent, tmp, outlen, 
                                   req, u, wchunk, wsent, wflushed, wtmp, 
                                   woutlen, closeOnFinish, aborted, wrote >>

init_wr_connected == /\ pc["io"] = "init_wr_connected"
                     /\ connected' = TRUE
                     /\ pc' = [pc EXCEPT !["io"] = "init_wr_requests"]
                     /\ UNCHANGED << requests, willClose, cwf, total, obufs, 
                                     rotate, reqLock, outOwner, outCount, trig, 
                                     taskq, accepted, inMap, sockOpen, backlog, 
                                     inbox, room, wire, nclose, blocked, 
                                     started, running, decided, 
                                     execAfterDecision, tornBy, crashed, ci, 
                                     cr, isr, isw, rdyT, rdyR, rdyW, rdyL, 
                                     data, piece, locked, chunk, sent, tmp, 
                                     outlen, req, u, wchunk, wsent, wflushed, 
                                     wtmp, woutlen, closeOnFinish, aborted, 
                                     wrote >>

init_wr_requests == /\ pc["io"] = "init_wr_requests"
                    /\ requests' = <<>>
                    /\ pc' = [pc EXCEPT !["io"] = "io_trig"]
                    /\ UNCHANGED << willClose, cwf, connected, total, obufs, 
                                    rotate, reqLock, outOwner, outCount, trig, 
                                    taskq, accepted, inMap, sockOpen, backlog, 
                                    inbox, room, wire, nclose, blocked, 
                                    started, running, decided, 
                                    execAfterDecision, tornBy, crashed, ci, cr, 
                                    isr, isw, rdyT, rdyR, rdyW, rdyL, data, 
                                    piece, locked, chunk, sent, tmp, outlen, 
                                    req, u, wchunk, wsent, wflushed, wtmp, 
                                    woutlen, closeOnFinish, aborted, wrote >>

io_trig == /\ pc["io"] = "io_trig"
           /\ IF rdyT
                 THEN /\ pc' = [pc EXCEPT !["io"] = "recv_drain_trigger"]
                 ELSE /\ pc' = [pc EXCEPT !["io"] = "io_read"]
           /\ UNCHANGED << requests, willClose, cwf, connected, total, obufs, 
                           rotate, reqLock, outOwner, outCount, trig, taskq, 
                           accepted, inMap, sockOpen, backlog, inbox, room, 
                           wire, nclose, blocked, started, running, decided, 
                           execAfterDecision, tornBy, crashed, ci, cr, isr, 
                           isw, rdyT, rdyR, rdyW, rdyL, data, piece, locked, 
                           chunk, sent, tmp, outlen, req, u, wchunk, wsent, 
                           wflushed, wtmp, woutlen, closeOnFinish, aborted, 
                           wrote >>

recv_drain_trigger == /\ pc["io"] = "recv_drain_trigger"
                      /\ trig' = 0
                      /\ pc' = [pc EXCEPT !["io"] = "io_read"]
                      /\ UNCHANGED << requests, willClose, cwf, connected, 
                                      total, obufs, rotate, reqLock, outOwner, 
                                      outCount, taskq, accepted, inMap, 
                                      sockOpen, backlog, inbox, room, wire, 
                                      nclose, blocked, started, running, 
                                      decided, execAfterDecision, tornBy, 
                                      crashed, ci, cr, isr, isw, rdyT, rdyR, 
                                      rdyW, rdyL, data, piece, locked, chunk, 
                                      sent, tmp, outlen, req, u, wchunk, wsent, 
                                      wflushed, wtmp, woutlen, closeOnFinish, 
                                      aborted, wrote >>

io_read == /\ pc["io"] = "io_read"
           /\ IF rdyR /\ inMap
                 THEN /\ pc' = [pc EXCEPT !["io"] = "handle_read_event_rd_connected"]
                 ELSE /\ pc' = [pc EXCEPT !["io"] = "io_write"]
           /\ UNCHANGED << requests, willClose, cwf, connected, total, obufs, 
                           rotate, reqLock, outOwner, outCount, trig, taskq, 
                           accepted, inMap, sockOpen, backlog, inbox, room, 
                           wire, nclose, blocked, started, running, decided, 
                           execAfterDecision, tornBy, crashed, ci, cr, isr, 
                           isw, rdyT, rdyR, rdyW, rdyL, data, piece, locked, 
                           chunk, sent, tmp, outlen, req, u, wchunk, wsent, 
                           wflushed, wtmp, woutlen, closeOnFinish, aborted, 
                           wrote >>

handle_read_event_rd_connected == /\ pc["io"] = "handle_read_event_rd_connected"
                                  /\ TRUE
                                  /\ pc' = [pc EXCEPT !["io"] = "recv_recv_sock"]
                                  /\ UNCHANGED << requests, willClose, cwf, 
                                                  connected, total, obufs, 
                                                  rotate, reqLock, outOwner, 
                                                  outCount, trig, taskq, 
                                                  accepted, inMap, sockOpen, 
                                                  backlog, inbox, room, wire, 
                                                  nclose, blocked, started, 
                                                  running, decided, 
                                                  execAfterDecision, tornBy, 
                                                  crashed, ci, cr, isr, isw, 
                                                  rdyT, rdyR, rdyW, rdyL, data, 
                                                  piece, locked, chunk, sent, 
                                                  tmp, outlen, req, u, wchunk, 
                                                  wsent, wflushed, wtmp, 
                                                  woutlen, closeOnFinish, 
                                                  aborted, wrote >>

recv_recv_sock == /\ pc["io"] = "recv_recv_sock"
                  /\ data' = Head(inbox)
                  /\ inbox' = Tail(inbox)
                  /\ pc' = [pc EXCEPT !["io"] = "received_acq_requests_lock"]
                  /\ UNCHANGED << requests, willClose, cwf, connected, total, 
                                  obufs, rotate, reqLock, outOwner, outCount, 
                                  trig, taskq, accepted, inMap, sockOpen, 
                                  backlog, room, wire, nclose, blocked, 
                                  started, running, decided, execAfterDecision, 
                                  tornBy, crashed, ci, cr, isr, isw, rdyT, 
                                  rdyR, rdyW, rdyL, piece, locked, chunk, sent, 
                                  tmp, outlen, req, u, wchunk, wsent, wflushed, 
                                  wtmp, woutlen, closeOnFinish, aborted, wrote >>

received_acq_requests_lock == /\ pc["io"] = "received_acq_requests_lock"
                              /\ reqLock = "free"
                              /\ reqLock' = "io"
                              /\ pc' = [pc EXCEPT !["io"] = "received_rd_will_close"]
                              /\ UNCHANGED << requests, willClose, cwf, 
                                              connected, total, obufs, rotate, 
                                              outOwner, outCount, trig, taskq, 
                                              accepted, inMap, sockOpen, 
                                              backlog, inbox, room, wire, 
                                              nclose, blocked, started, 
                                              running, decided, 
                                              execAfterDecision, tornBy, 
                                              crashed, ci, cr, isr, isw, rdyT, 
                                              rdyR, rdyW, rdyL, data, piece, 
                                              locked, chunk, sent, tmp, outlen, 
                                              req, u, wchunk, wsent, wflushed, 
                                              wtmp, woutlen, closeOnFinish, 
                                              aborted, wrote >>

received_rd_will_close == /\ pc["io"] = "received_rd_will_close"
                          /\ IF willClose
                                THEN /\ pc' = [pc EXCEPT !["io"] = "received_rel_requests_lock"]
                                ELSE /\ pc' = [pc EXCEPT !["io"] = "received_rd_close_when_flushed"]
                          /\ UNCHANGED << requests, willClose, cwf, connected, 
                                          total, obufs, rotate, reqLock, 
                                          outOwner, outCount, trig, taskq, 
                                          accepted, inMap, sockOpen, backlog, 
                                          inbox, room, wire, nclose, blocked, 
                                          started, running, decided, 
                                          execAfterDecision, tornBy, crashed, 
                                          ci, cr, isr, isw, rdyT, rdyR, rdyW, 
                                          rdyL, data, piece, locked, chunk, 
                                          sent, tmp, outlen, req, u, wchunk, 
                                          wsent, wflushed, wtmp, woutlen, 
                                          closeOnFinish, aborted, wrote >>

received_rd_close_when_flushed == /\ pc["io"] = "received_rd_close_when_flushed"
                                  /\ IF cwf
                                        THEN /\ pc' = [pc EXCEPT !["io"] = "received_rel_requests_lock"]
                                        ELSE /\ pc' = [pc EXCEPT !["io"] = "io_received_loop"]
                                  /\ UNCHANGED << requests, willClose, cwf, 
                                                  connected, total, obufs, 
                                                  rotate, reqLock, outOwner, 
                                                  outCount, trig, taskq, 
                                                  accepted, inMap, sockOpen, 
                                                  backlog, inbox, room, wire, 
                                                  nclose, blocked, started, 
                                                  running, decided, 
                                                  execAfterDecision, tornBy, 
                                                  crashed, ci, cr, isr, isw, 
                                                  rdyT, rdyR, rdyW, rdyL, data, 
                                                  piece, locked, chunk, sent, 
                                                  tmp, outlen, req, u, wchunk, 
                                                  wsent, wflushed, wtmp, 
                                                  woutlen, closeOnFinish, 
                                                  aborted, wrote >>

io_received_loop == /\ pc["io"] = "io_received_loop"
                    /\ IF data # <<>>
                          THEN /\ piece' = Head(data)
                               /\ data' = Tail(data)
                               /\ pc' = [pc EXCEPT !["io"] = "received_rd_requests"]
                          ELSE /\ pc' = [pc EXCEPT !["io"] = "received_rel_requests_lock"]
                               /\ UNCHANGED << data, piece >>
                    /\ UNCHANGED << requests, willClose, cwf, connected, total, 
                                    obufs, rotate, reqLock, outOwner, outCount, 
                                    trig, taskq, accepted, inMap, sockOpen, 
                                    backlog, inbox, room, wire, nclose, 
                                    blocked, started, running, decided, 
                                    execAfterDecision, tornBy, crashed, ci, cr, 
                                    isr, isw, rdyT, rdyR, rdyW, rdyL, locked, 
                                    chunk, sent, tmp, outlen, req, u, wchunk, 
                                    wsent, wflushed, wtmp, woutlen, 
                                    closeOnFinish, aborted, wrote >>

received_rd_requests == /\ pc["io"] = "received_rd_requests"
                        /\ requests' = Append(requests, piece)
                        /\ pc' = [pc EXCEPT !["io"] = "received_rd_requests_2"]
                        /\ UNCHANGED << willClose, cwf, connected, total, 
                                        obufs, rotate, reqLock, outOwner, 
                                        outCount, trig, taskq, accepted, inMap, 
                                        sockOpen, backlog, inbox, room, wire, 
                                        nclose, blocked, started, running, 
                                        decided, execAfterDecision, tornBy, 
                                        crashed, ci, cr, isr, isw, rdyT, rdyR, 
                                        rdyW, rdyL, data, piece, locked, chunk, 
                                        sent, tmp, outlen, req, u, wchunk, 
                                        wsent, wflushed, wtmp, woutlen, 
                                        closeOnFinish, aborted, wrote >>

received_rd_requests_2 == /\ pc["io"] = "received_rd_requests_2"
                          /\ IF Len(requests) = 1
                                THEN /\ taskq' = taskq + 1
                                ELSE /\ TRUE
                                     /\ taskq' = taskq
                          /\ pc' = [pc EXCEPT !["io"] = "io_received_loop"]
                          /\ UNCHANGED << requests, willClose, cwf, connected, 
                                          total, obufs, rotate, reqLock, 
                                          outOwner, outCount, trig, accepted, 
                                          inMap, sockOpen, backlog, inbox, 
                                          room, wire, nclose, blocked, started, 
                                          running, decided, execAfterDecision, 
                                          tornBy, crashed, ci, cr, isr, isw, 
                                          rdyT, rdyR, rdyW, rdyL, data, piece, 
                                          locked, chunk, sent, tmp, outlen, 
                                          req, u, wchunk, wsent, wflushed, 
                                          wtmp, woutlen, closeOnFinish, 
                                          aborted, wrote >>

received_rel_requests_lock == /\ pc["io"] = "received_rel_requests_lock"
                              /\ reqLock' = "free"
                              /\ pc' = [pc EXCEPT !["io"] = "io_write"]
                              /\ UNCHANGED << requests, willClose, cwf, 
                                              connected, total, obufs, rotate, 
                                              outOwner, outCount, trig, taskq, 
                                              accepted, inMap, sockOpen, 
                                              backlog, inbox, room, wire, 
                                              nclose, blocked, started, 
                                              running, decided, 
                                              execAfterDecision, tornBy, 
                                              crashed, ci, cr, isr, isw, rdyT, 
                                              rdyR, rdyW, rdyL, data, piece, 
                                              locked, chunk, sent, tmp, outlen, 
                                              req, u, wchunk, wsent, wflushed, 
                                              wtmp, woutlen, closeOnFinish, 
                                              aborted, wrote >>

io_write == /\ pc["io"] = "io_write"
            /\ IF rdyW /\ inMap
                  THEN /\ pc' = [pc EXCEPT !["io"] = "handle_write_event_rd_connected"]
                  ELSE /\ pc' = [pc EXCEPT !["io"] = "io_poll"]
            /\ UNCHANGED << requests, willClose, cwf, connected, total, obufs, 
                            rotate, reqLock, outOwner, outCount, trig, taskq, 
                            accepted, inMap, sockOpen, backlog, inbox, room, 
                            wire, nclose, blocked, started, running, decided, 
                            execAfterDecision, tornBy, crashed, ci, cr, isr, 
                            isw, rdyT, rdyR, rdyW, rdyL, data, piece, locked, 
                            chunk, sent, tmp, outlen, req, u, wchunk, wsent, 
                            wflushed, wtmp, woutlen, closeOnFinish, aborted, 
                            wrote >>

handle_write_event_rd_connected == /\ pc["io"] = "handle_write_event_rd_connected"
                                   /\ TRUE
                                   /\ pc' = [pc EXCEPT !["io"] = "handle_write_rd_requests"]
                                   /\ UNCHANGED << requests, willClose, cwf, 
                                                   connected, total, obufs, 
                                                   rotate, reqLock, outOwner, 
                                                   outCount, trig, taskq, 
                                                   accepted, inMap, sockOpen, 
                                                   backlog, inbox, room, wire, 
                                                   nclose, blocked, started, 
                                                   running, decided, 
                                                   execAfterDecision, tornBy, 
                                                   crashed, ci, cr, isr, isw, 
                                                   rdyT, rdyR, rdyW, rdyL, 
                                                   data, piece, locked, chunk, 
                                                   sent, tmp, outlen, req, u, 
                                                   wchunk, wsent, wflushed, 
                                                   wtmp, woutlen, 
                                                   closeOnFinish, aborted, 
                                                   wrote >>

handle_write_rd_requests == /\ pc["io"] = "handle_write_rd_requests"
                            /\ IF requests # <<>>
                                  THEN /\ pc' = [pc EXCEPT !["io"] = "handle_write_rd_total_outbufs_len"]
                                  ELSE /\ pc' = [pc EXCEPT !["io"] = "flush_some_if_lockable_tryacq_outbuf_lock"]
                            /\ UNCHANGED << requests, willClose, cwf, 
                                            connected, total, obufs, rotate, 
                                            reqLock, outOwner, outCount, trig, 
                                            taskq, accepted, inMap, sockOpen, 
                                            backlog, inbox, room, wire, nclose, 
                                            blocked, started, running, decided, 
                                            execAfterDecision, tornBy, crashed, 
                                            ci, cr, isr, isw, rdyT, rdyR, rdyW, 
                                            rdyL, data, piece, locked, chunk, 
                                            sent, tmp, outlen, req, u, wchunk, 
                                            wsent, wflushed, wtmp, woutlen, 
                                            closeOnFinish, aborted, wrote >>

handle_write_rd_total_outbufs_len == /\ pc["io"] = "handle_write_rd_total_outbufs_len"
                                     /\ IF total < SendBytes
                                           THEN /\ pc' = [pc EXCEPT !["io"] = "handle_write_rd_close_when_flushed"]
                                           ELSE /\ pc' = [pc EXCEPT !["io"] = "flush_some_if_lockable_tryacq_outbuf_lock"]
                                     /\ UNCHANGED << requests, willClose, cwf, 
                                                     connected, total, obufs, 
                                                     rotate, reqLock, outOwner, 
                                                     outCount, trig, taskq, 
                                                     accepted, inMap, sockOpen, 
                                                     backlog, inbox, room, 
                                                     wire, nclose, blocked, 
                                                     started, running, decided, 
                                                     execAfterDecision, tornBy, 
                                                     crashed, ci, cr, isr, isw, 
                                                     rdyT, rdyR, rdyW, rdyL, 
                                                     data, piece, locked, 
                                                     chunk, sent, tmp, outlen, 
                                                     req, u, wchunk, wsent, 
                                                     wflushed, wtmp, woutlen, 
                                                     closeOnFinish, aborted, 
                                                     wrote >>

flush_some_if_lockable_tryacq_outbuf_lock == /\ pc["io"] = "flush_some_if_lockable_tryacq_outbuf_lock"
                                             /\ IF outOwner = "free"
                                                   THEN /\ outOwner' = "io"
                                                        /\ outCount' = 1
                                                        /\ locked' = TRUE
                                                        /\ LET ob == IF Len(obufs[1]) = 0 /\ Len(obufs) > 1 THEN Tail(obufs) ELSE obufs IN
                                                             /\ obufs' = ob
                                                             /\ outlen' = Len(ob[1])
                                                             /\ chunk' = ob[1]
                                                   ELSE /\ locked' = FALSE
                                                        /\ UNCHANGED << obufs, 
                                                                        outOwner, 
                                                                        outCount, 
                                                                        chunk, 
                                                                        outlen >>
                                             /\ pc' = [pc EXCEPT !["io"] = "io_fs"]
                                             /\ UNCHANGED << requests, 
                                                             willClose, cwf, 
                                                             connected, total, 
                                                             rotate, reqLock, 
                                                             trig, taskq, 
                                                             accepted, inMap, 
                                                             sockOpen, backlog, 
                                                             inbox, room, wire, 
                                                             nclose, blocked, 
                                                             started, running, 
                                                             decided, 
                                                             execAfterDecision, 
                                                             tornBy, crashed, 
                                                             ci, cr, isr, isw, 
                                                             rdyT, rdyR, rdyW, 
                                                             rdyL, data, piece, 
                                                             sent, tmp, req, u, 
                                                             wchunk, wsent, 
                                                             wflushed, wtmp, 
                                                             woutlen, 
                                                             closeOnFinish, 
                                                             aborted, wrote >>

io_fs == /\ pc["io"] = "io_fs"
         /\ IF locked
               THEN /\ pc' = [pc EXCEPT !["io"] = "io_fs_loop"]
               ELSE /\ pc' = [pc EXCEPT !["io"] = "handle_write_rd_close_when_flushed"]
         /\ UNCHANGED << requests, willClose, cwf, connected, total, obufs, 
                         rotate, reqLock, outOwner, outCount, trig, taskq, 
                         accepted, inMap, sockOpen, backlog, inbox, room, wire, 
                         nclose, blocked, started, running, decided, 
                         execAfterDecision, tornBy, crashed, ci, cr, isr, isw, 
                         rdyT, rdyR, rdyW, rdyL, data, piece, locked, chunk, 
                         sent, tmp, outlen, req, u, wchunk, wsent, wflushed, 
                         wtmp, woutlen, closeOnFinish, aborted, wrote >>

io_fs_loop == /\ pc["io"] = "io_fs_loop"
              /\ IF outlen > 0
                    THEN /\ pc' = [pc EXCEPT !["io"] = "send_send_sock_io"]
                    ELSE /\ pc' = [pc EXCEPT !["io"] = "flush_some_if_lockable_rd_total_outbufs_len"]
              /\ UNCHANGED << requests, willClose, cwf, connected, total, 
                              obufs, rotate, reqLock, outOwner, outCount, trig, 
                              taskq, accepted, inMap, sockOpen, backlog, inbox, 
                              room, wire, nclose, blocked, started, running, 
                              decided, execAfterDecision, tornBy, crashed, ci, 
                              cr, isr, isw, rdyT, rdyR, rdyW, rdyL, data, 
                              piece, locked, chunk, sent, tmp, outlen, req, u, 
                              wchunk, wsent, wflushed, wtmp, woutlen, 
                              closeOnFinish, aborted, wrote >>

send_send_sock_io == /\ pc["io"] = "send_send_sock_io"
                     /\ sent' = (IF room = Unlimited THEN Len(chunk) ELSE Min2(Len(chunk), room))
                     /\ wire' = wire \o SubSeq(chunk, 1, sent')
                     /\ room' = (IF room = Unlimited THEN Unlimited ELSE room - sent')
                     /\ IF sent' = 0
                           THEN /\ blocked' = blocked + 1
                                /\ pc' = [pc EXCEPT !["io"] = "flush_some_if_lockable_rd_total_outbufs_len"]
                                /\ UNCHANGED << obufs, crashed, outlen >>
                           ELSE /\ IF sent' > Len(obufs[1])
                                      THEN /\ crashed' = (crashed \cup {"io"})
                                           /\ pc' = [pc EXCEPT !["io"] = "flush_some_if_lockable_rd_total_outbufs_len"]
                                           /\ UNCHANGED << obufs, outlen >>
                                      ELSE /\ obufs' = [obufs EXCEPT ![1] = SubSeq(obufs[1], sent' + 1, Len(obufs[1]))]
                                           /\ outlen' = outlen - sent'
                                           /\ pc' = [pc EXCEPT !["io"] = "flush_some_rd_total_outbufs_len_io"]
                                           /\ UNCHANGED crashed
                                /\ UNCHANGED blocked
                     /\ UNCHANGED << requests, willClose, cwf, connected, 
                                     total, rotate, reqLock, outOwner, 
                                     outCount, trig, taskq, accepted, inMap, 
                                     sockOpen, backlog, inbox, nclose, started, 
                                     running, decided, execAfterDecision, 
                                     tornBy, ci, cr, isr, isw, rdyT, rdyR, 
                                     rdyW, rdyL, data, piece, locked, chunk, 
                                     tmp, req, u, wchunk, wsent, wflushed, 
                                     wtmp, woutlen, closeOnFinish, aborted, 
                                     wrote >>

flush_some_rd_total_outbufs_len_io == /\ pc["io"] = "flush_some_rd_total_outbufs_len_io"
                                      /\ tmp' = total
                                      /\ pc' = [pc EXCEPT !["io"] = "flush_some_wr_total_outbufs_len_io"]
                                      /\ UNCHANGED << requests, willClose, cwf, 
                                                      connected, total, obufs, 
                                                      rotate, reqLock, 
                                                      outOwner, outCount, trig, 
                                                      taskq, accepted, inMap, 
                                                      sockOpen, backlog, inbox, 
                                                      room, wire, nclose, 
                                                      blocked, started, 
                                                      running, decided, 
                                                      execAfterDecision, 
                                                      tornBy, crashed, ci, cr, 
                                                      isr, isw, rdyT, rdyR, 
                                                      rdyW, rdyL, data, piece, 
                                                      locked, chunk, sent, 
                                                      outlen, req, u, wchunk, 
                                                      wsent, wflushed, wtmp, 
                                                      woutlen, closeOnFinish, 
                                                      aborted, wrote >>

flush_some_wr_total_outbufs_len_io == /\ pc["io"] = "flush_some_wr_total_outbufs_len_io"
                                      /\ total' = tmp - sent
                                      /\ IF outlen > 0
                                            THEN /\ chunk' = obufs[1]
                                                 /\ UNCHANGED << obufs, outlen >>
                                            ELSE /\ IF Len(obufs) > 1
                                                       THEN /\ obufs' = Tail(obufs)
                                                            /\ outlen' = Len(obufs'[1])
                                                            /\ chunk' = obufs'[1]
                                                       ELSE /\ TRUE
                                                            /\ UNCHANGED << obufs, 
                                                                            chunk, 
                                                                            outlen >>
                                      /\ pc' = [pc EXCEPT !["io"] = "io_fs_loop"]
                                      /\ UNCHANGED << requests, willClose, cwf, 
                                                      connected, rotate, 
                                                      reqLock, outOwner, 
                                                      outCount, trig, taskq, 
                                                      accepted, inMap, 
                                                      sockOpen, backlog, inbox, 
                                                      room, wire, nclose, 
                                                      blocked, started, 
                                                      running, decided, 
                                                      execAfterDecision, 
                                                      tornBy, crashed, ci, cr, 
                                                      isr, isw, rdyT, rdyR, 
                                                      rdyW, rdyL, data, piece, 
                                                      locked, sent, tmp, req, 
                                                      u, wchunk, wsent, 
                                                      wflushed, wtmp, woutlen, 
                                                      closeOnFinish, aborted, 
                                                      wrote >>

flush_some_if_lockable_rd_total_outbufs_len == /\ pc["io"] = "flush_some_if_lockable_rd_total_outbufs_len"
                                               /\ IF total <= HWM
                                                     THEN /\ pc' = [pc EXCEPT !["io"] = "flush_some_if_lockable_notify_outbuf_lock"]
                                                     ELSE /\ pc' = [pc EXCEPT !["io"] = "flush_some_if_lockable_rel_outbuf_lock"]
                                               /\ UNCHANGED << requests, 
                                                               willClose, cwf, 
                                                               connected, 
                                                               total, obufs, 
                                                               rotate, reqLock, 
                                                               outOwner, 
                                                               outCount, trig, 
                                                               taskq, accepted, 
                                                               inMap, sockOpen, 
                                                               backlog, inbox, 
                                                               room, wire, 
                                                               nclose, blocked, 
                                                               started, 
                                                               running, 
                                                               decided, 
                                                               execAfterDecision, 
                                                               tornBy, crashed, 
                                                               ci, cr, isr, 
                                                               isw, rdyT, rdyR, 
                                                               rdyW, rdyL, 
                                                               data, piece, 
                                                               locked, chunk, 
                                                               sent, tmp, 
                                                               outlen, req, u, 
                                                               wchunk, wsent, 
                                                               wflushed, wtmp, 
                                                               woutlen, 
                                                               closeOnFinish, 
                                                               aborted, wrote >>

flush_some_if_lockable_notify_outbuf_lock == /\ pc["io"] = "flush_some_if_lockable_notify_outbuf_lock"
                                             /\ TRUE
                                             /\ pc' = [pc EXCEPT !["io"] = "flush_some_if_lockable_rel_outbuf_lock"]
                                             /\ UNCHANGED << requests, 
                                                             willClose, cwf, 
                                                             connected, total, 
                                                             obufs, rotate, 
                                                             reqLock, outOwner, 
                                                             outCount, trig, 
                                                             taskq, accepted, 
                                                             inMap, sockOpen, 
                                                             backlog, inbox, 
                                                             room, wire, 
                                                             nclose, blocked, 
                                                             started, running, 
                                                             decided, 
                                                             execAfterDecision, 
                                                             tornBy, crashed, 
                                                             ci, cr, isr, isw, 
                                                             rdyT, rdyR, rdyW, 
                                                             rdyL, data, piece, 
                                                             locked, chunk, 
                                                             sent, tmp, outlen, 
                                                             req, u, wchunk, 
                                                             wsent, wflushed, 
                                                             wtmp, woutlen, 
                                                             closeOnFinish, 
                                                             aborted, wrote >>

flush_some_if_lockable_rel_outbuf_lock == /\ pc["io"] = "flush_some_if_lockable_rel_outbuf_lock"
                                          /\ outCount' = 0
                                          /\ outOwner' = "free"
                                          /\ locked' = FALSE
                                          /\ pc' = [pc EXCEPT !["io"] = "handle_write_rd_close_when_flushed"]
                                          /\ UNCHANGED << requests, willClose, 
                                                          cwf, connected, 
                                                          total, obufs, rotate, 
                                                          reqLock, trig, taskq, 
                                                          accepted, inMap, 
                                                          sockOpen, backlog, 
                                                          inbox, room, wire, 
                                                          nclose, blocked, 
                                                          started, running, 
                                                          decided, 
                                                          execAfterDecision, 
                                                          tornBy, crashed, ci, 
                                                          cr, isr, isw, rdyT, 
                                                          rdyR, rdyW, rdyL, 
                                                          data, piece, chunk, 
                                                          sent, tmp, outlen, 
                                                          req, u, wchunk, 
                                                          wsent, wflushed, 
                                                          wtmp, woutlen, 
                                                          closeOnFinish, 
                                                          aborted, wrote >>

handle_write_rd_close_when_flushed == /\ pc["io"] = "handle_write_rd_close_when_flushed"
                                      /\ IF cwf
                                            THEN /\ pc' = [pc EXCEPT !["io"] = "handle_write_rd_total_outbufs_len_2"]
                                            ELSE /\ pc' = [pc EXCEPT !["io"] = "handle_write_rd_will_close"]
                                      /\ UNCHANGED << requests, willClose, cwf, 
                                                      connected, total, obufs, 
                                                      rotate, reqLock, 
                                                      outOwner, outCount, trig, 
                                                      taskq, accepted, inMap, 
                                                      sockOpen, backlog, inbox, 
                                                      room, wire, nclose, 
                                                      blocked, started, 
                                                      running, decided, 
                                                      execAfterDecision, 
                                                      tornBy, crashed, ci, cr, 
                                                      isr, isw, rdyT, rdyR, 
                                                      rdyW, rdyL, data, piece, 
                                                      locked, chunk, sent, tmp, 
                                                      outlen, req, u, wchunk, 
                                                      wsent, wflushed, wtmp, 
                                                      woutlen, closeOnFinish, 
                                                      aborted, wrote >>

handle_write_rd_total_outbufs_len_2 == /\ pc["io"] = "handle_write_rd_total_outbufs_len_2"
                                       /\ IF total = 0
                                             THEN /\ pc' = [pc EXCEPT !["io"] = "handle_write_wr_close_when_flushed"]
                                             ELSE /\ pc' = [pc EXCEPT !["io"] = "handle_write_rd_will_close"]
                                       /\ UNCHANGED << requests, willClose, 
                                                       cwf, connected, total, 
                                                       obufs, rotate, reqLock, 
                                                       outOwner, outCount, 
                                                       trig, taskq, accepted, 
                                                       inMap, sockOpen, 
                                                       backlog, inbox, room, 
                                                       wire, nclose, blocked, 
                                                       started, running, 
                                                       decided, 
                                                       execAfterDecision, 
                                                       tornBy, crashed, ci, cr, 
                                                       isr, isw, rdyT, rdyR, 
                                                       rdyW, rdyL, data, piece, 
                                                       locked, chunk, sent, 
                                                       tmp, outlen, req, u, 
                                                       wchunk, wsent, wflushed, 
                                                       wtmp, woutlen, 
                                                       closeOnFinish, aborted, 
                                                       wrote >>

handle_write_wr_close_when_flushed == /\ pc["io"] = "handle_write_wr_close_when_flushed"
                                      /\ cwf' = FALSE
                                      /\ pc' = [pc EXCEPT !["io"] = "handle_write_wr_will_close"]
                                      /\ UNCHANGED << requests, willClose, 
                                                      connected, total, obufs, 
                                                      rotate, reqLock, 
                                                      outOwner, outCount, trig, 
                                                      taskq, accepted, inMap, 
                                                      sockOpen, backlog, inbox, 
                                                      room, wire, nclose, 
                                                      blocked, started, 
                                                      running, decided, 
                                                      execAfterDecision, 
                                                      tornBy, crashed, ci, cr, 
                                                      isr, isw, rdyT, rdyR, 
                                                      rdyW, rdyL, data, piece, 
                                                      locked, chunk, sent, tmp, 
                                                      outlen, req, u, wchunk, 
                                                      wsent, wflushed, wtmp, 
                                                      woutlen, closeOnFinish, 
                                                      aborted, wrote >>

handle_write_wr_will_close == /\ pc["io"] = "handle_write_wr_will_close"
                              /\ willClose' = TRUE
                              /\ decided' = TRUE
                              /\ pc' = [pc EXCEPT !["io"] = "handle_write_rd_will_close"]
                              /\ UNCHANGED << requests, cwf, connected, total, 
                                              obufs, rotate, reqLock, outOwner, 
                                              outCount, trig, taskq, accepted, 
                                              inMap, sockOpen, backlog, inbox, 
                                              room, wire, nclose, blocked, 
                                              started, running, 
                                              execAfterDecision, tornBy, 
                                              crashed, ci, cr, isr, isw, rdyT, 
                                              rdyR, rdyW, rdyL, data, piece, 
                                              locked, chunk, sent, tmp, outlen, 
                                              req, u, wchunk, wsent, wflushed, 
                                              wtmp, woutlen, closeOnFinish, 
                                              aborted, wrote >>

handle_write_rd_will_close == /\ pc["io"] = "handle_write_rd_will_close"
                              /\ IF willClose
                                    THEN /\ pc' = [pc EXCEPT !["io"] = "handle_close_acq_outbuf_lock"]
                                    ELSE /\ pc' = [pc EXCEPT !["io"] = "io_poll"]
                              /\ UNCHANGED << requests, willClose, cwf, 
                                              connected, total, obufs, rotate, 
                                              reqLock, outOwner, outCount, 
                                              trig, taskq, accepted, inMap, 
                                              sockOpen, backlog, inbox, room, 
                                              wire, nclose, blocked, started, 
                                              running, decided, 
                                              execAfterDecision, tornBy, 
                                              crashed, ci, cr, isr, isw, rdyT, 
                                              rdyR, rdyW, rdyL, data, piece, 
                                              locked, chunk, sent, tmp, outlen, 
                                              req, u, wchunk, wsent, wflushed, 
                                              wtmp, woutlen, closeOnFinish, 
                                              aborted, wrote >>

handle_close_acq_outbuf_lock == /\ pc["io"] = "handle_close_acq_outbuf_lock"
                                /\ outOwner = "free"
                                /\ outOwner' = "io"
                                /\ outCount' = 1
                                /\ pc' = [pc EXCEPT !["io"] = "handle_close_wr_total_outbufs_len"]
                                /\ UNCHANGED << requests, willClose, cwf, 
                                                connected, total, obufs, 
                                                rotate, reqLock, trig, taskq, 
                                                accepted, inMap, sockOpen, 
                                                backlog, inbox, room, wire, 
                                                nclose, blocked, started, 
                                                running, decided, 
                                                execAfterDecision, tornBy, 
                                                crashed, ci, cr, isr, isw, 
                                                rdyT, rdyR, rdyW, rdyL, data, 
                                                piece, locked, chunk, sent, 
                                                tmp, outlen, req, u, wchunk, 
                                                wsent, wflushed, wtmp, woutlen, 
                                                closeOnFinish, aborted, wrote >>

handle_close_wr_total_outbufs_len == /\ pc["io"] = "handle_close_wr_total_outbufs_len"
                                     /\ total' = 0
                                     /\ obufs' = << <<>> >>
                                     /\ pc' = [pc EXCEPT !["io"] = "handle_close_wr_connected"]
                                     /\ UNCHANGED << requests, willClose, cwf, 
                                                     connected, rotate, 
                                                     reqLock, outOwner, 
                                                     outCount, trig, taskq, 
                                                     accepted, inMap, sockOpen, 
                                                     backlog, inbox, room, 
                                                     wire, nclose, blocked, 
                                                     started, running, decided, 
                                                     execAfterDecision, tornBy, 
                                                     crashed, ci, cr, isr, isw, 
                                                     rdyT, rdyR, rdyW, rdyL, 
                                                     data, piece, locked, 
                                                     chunk, sent, tmp, outlen, 
                                                     req, u, wchunk, wsent, 
                                                     wflushed, wtmp, woutlen, 
                                                     closeOnFinish, aborted, 
                                                     wrote >>

handle_close_wr_connected == /\ pc["io"] = "handle_close_wr_connected"
                             /\ connected' = FALSE
                             /\ pc' = [pc EXCEPT !["io"] = "handle_close_notify_outbuf_lock"]
                             /\ UNCHANGED << requests, willClose, cwf, total, 
                                             obufs, rotate, reqLock, outOwner, 
                                             outCount, trig, taskq, accepted, 
                                             inMap, sockOpen, backlog, inbox, 
                                             room, wire, nclose, blocked, 
                                             started, running, decided, 
                                             execAfterDecision, tornBy, 
                                             crashed, ci, cr, isr, isw, rdyT, 
                                             rdyR, rdyW, rdyL, data, piece, 
                                             locked, chunk, sent, tmp, outlen, 
                                             req, u, wchunk, wsent, wflushed, 
                                             wtmp, woutlen, closeOnFinish, 
                                             aborted, wrote >>

handle_close_notify_outbuf_lock == /\ pc["io"] = "handle_close_notify_outbuf_lock"
                                   /\ TRUE
                                   /\ pc' = [pc EXCEPT !["io"] = "handle_close_rel_outbuf_lock"]
                                   /\ UNCHANGED << requests, willClose, cwf, 
                                                   connected, total, obufs, 
                                                   rotate, reqLock, outOwner, 
                                                   outCount, trig, taskq, 
                                                   accepted, inMap, sockOpen, 
                                                   backlog, inbox, room, wire, 
                                                   nclose, blocked, started, 
                                                   running, decided, 
                                                   execAfterDecision, tornBy, 
                                                   crashed, ci, cr, isr, isw, 
                                                   rdyT, rdyR, rdyW, rdyL, 
                                                   data, piece, locked, chunk, 
                                                   sent, tmp, outlen, req, u, 
                                                   wchunk, wsent, wflushed, 
                                                   wtmp, woutlen, 
                                                   closeOnFinish, aborted, 
                                                   wrote >>

handle_close_rel_outbuf_lock == /\ pc["io"] = "handle_close_rel_outbuf_lock"
                                /\ outCount' = 0
                                /\ outOwner' = "free"
                                /\ pc' = [pc EXCEPT !["io"] = "close_wr_connected"]
                                /\ UNCHANGED << requests, willClose, cwf, 
                                                connected, total, obufs, 
                                                rotate, reqLock, trig, taskq, 
                                                accepted, inMap, sockOpen, 
                                                backlog, inbox, room, wire, 
                                                nclose, blocked, started, 
                                                running, decided, 
                                                execAfterDecision, tornBy, 
                                                crashed, ci, cr, isr, isw, 
                                                rdyT, rdyR, rdyW, rdyL, data, 
                                                piece, locked, chunk, sent, 
                                                tmp, outlen, req, u, wchunk, 
                                                wsent, wflushed, wtmp, woutlen, 
                                                closeOnFinish, aborted, wrote >>

close_wr_connected == /\ pc["io"] = "close_wr_connected"
                      /\ connected' = FALSE
                      /\ inMap' = FALSE
                      /\ pc' = [pc EXCEPT !["io"] = "close_close_sock"]
                      /\ UNCHANGED << requests, willClose, cwf, total, obufs, 
                                      rotate, reqLock, outOwner, outCount, 
                                      trig, taskq, accepted, sockOpen, backlog, 
                                      inbox, room, wire, nclose, blocked, 
                                      started, running, decided, 
                                      execAfterDecision, tornBy, crashed, ci, 
                                      cr, isr, isw, rdyT, rdyR, rdyW, rdyL, 
                                      data, piece, locked, chunk, sent, tmp, 
                                      outlen, req, u, wchunk, wsent, wflushed, 
                                      wtmp, woutlen, closeOnFinish, aborted, 
                                      wrote >>

close_close_sock == /\ pc["io"] = "close_close_sock"
                    /\ sockOpen' = FALSE
                    /\ nclose' = nclose + 1
                    /\ tornBy' = Append(tornBy, "io")
                    /\ pc' = [pc EXCEPT !["io"] = "io_poll"]
                    /\ UNCHANGED << requests, willClose, cwf, connected, total, 
                                    obufs, rotate, reqLock, outOwner, outCount, 
                                    trig, taskq, accepted, inMap, backlog, 
                                    inbox, room, wire, blocked, started, 
                                    running, decided, execAfterDecision, 
                                    crashed, ci, cr, isr, isw, rdyT, rdyR, 
                                    rdyW, rdyL, data, piece, locked, chunk, 
                                    sent, tmp, outlen, req, u, wchunk, wsent, 
                                    wflushed, wtmp, woutlen, closeOnFinish, 
                                    aborted, wrote >>

readable_rd_will_close == /\ pc["io"] = "readable_rd_will_close"
                          /\ IF willClose
                                THEN /\ pc' = [pc EXCEPT !["io"] = "writable_rd_total_outbufs_len"]
                                ELSE /\ pc' = [pc EXCEPT !["io"] = "readable_rd_close_when_flushed"]
                          /\ UNCHANGED << requests, willClose, cwf, connected, 
                                          total, obufs, rotate, reqLock, 
                                          outOwner, outCount, trig, taskq, 
                                          accepted, inMap, sockOpen, backlog, 
                                          inbox, room, wire, nclose, blocked, 
                                          started, running, decided, 
                                          execAfterDecision, tornBy, crashed, 
                                          ci, cr, isr, isw, rdyT, rdyR, rdyW, 
                                          rdyL, data, piece, locked, chunk, 
                                          sent, tmp, outlen, req, u, wchunk, 
                                          wsent, wflushed, wtmp, woutlen, 
                                          closeOnFinish, aborted, wrote >>

readable_rd_close_when_flushed == /\ pc["io"] = "readable_rd_close_when_flushed"
                                  /\ IF cwf
                                        THEN /\ pc' = [pc EXCEPT !["io"] = "writable_rd_total_outbufs_len"]
                                        ELSE /\ pc' = [pc EXCEPT !["io"] = "readable_rd_requests"]
                                  /\ UNCHANGED << requests, willClose, cwf, 
                                                  connected, total, obufs, 
                                                  rotate, reqLock, outOwner, 
                                                  outCount, trig, taskq, 
                                                  accepted, inMap, sockOpen, 
                                                  backlog, inbox, room, wire, 
                                                  nclose, blocked, started, 
                                                  running, decided, 
                                                  execAfterDecision, tornBy, 
                                                  crashed, ci, cr, isr, isw, 
                                                  rdyT, rdyR, rdyW, rdyL, data, 
                                                  piece, locked, chunk, sent, 
                                                  tmp, outlen, req, u, wchunk, 
                                                  wsent, wflushed, wtmp, 
                                                  woutlen, closeOnFinish, 
                                                  aborted, wrote >>

readable_rd_requests == /\ pc["io"] = "readable_rd_requests"
                        /\ IF Len(requests) > Lookahead
                              THEN /\ pc' = [pc EXCEPT !["io"] = "writable_rd_total_outbufs_len"]
                              ELSE /\ pc' = [pc EXCEPT !["io"] = "readable_rd_total_outbufs_len"]
                        /\ UNCHANGED << requests, willClose, cwf, connected, 
                                        total, obufs, rotate, reqLock, 
                                        outOwner, outCount, trig, taskq, 
                                        accepted, inMap, sockOpen, backlog, 
                                        inbox, room, wire, nclose, blocked, 
                                        started, running, decided, 
                                        execAfterDecision, tornBy, crashed, ci, 
                                        cr, isr, isw, rdyT, rdyR, rdyW, rdyL, 
                                        data, piece, locked, chunk, sent, tmp, 
                                        outlen, req, u, wchunk, wsent, 
                                        wflushed, wtmp, woutlen, closeOnFinish, 
                                        aborted, wrote >>

readable_rd_total_outbufs_len == /\ pc["io"] = "readable_rd_total_outbufs_len"
                                 /\ isr' = (total = 0)
                                 /\ pc' = [pc EXCEPT !["io"] = "writable_rd_total_outbufs_len"]
                                 /\ UNCHANGED << requests, willClose, cwf, 
                                                 connected, total, obufs, 
                                                 rotate, reqLock, outOwner, 
                                                 outCount, trig, taskq, 
                                                 accepted, inMap, sockOpen, 
                                                 backlog, inbox, room, wire, 
                                                 nclose, blocked, started, 
                                                 running, decided, 
                                                 execAfterDecision, tornBy, 
                                                 crashed, ci, cr, isw, rdyT, 
                                                 rdyR, rdyW, rdyL, data, piece, 
                                                 locked, chunk, sent, tmp, 
                                                 outlen, req, u, wchunk, wsent, 
                                                 wflushed, wtmp, woutlen, 
                                                 closeOnFinish, aborted, wrote >>

writable_rd_total_outbufs_len == /\ pc["io"] = "writable_rd_total_outbufs_len"
                                 /\ IF total > 0
                                       THEN /\ isw' = TRUE
                                            /\ pc' = [pc EXCEPT !["io"] = "poll_select_loop"]
                                       ELSE /\ pc' = [pc EXCEPT !["io"] = "writable_rd_will_close"]
                                            /\ isw' = isw
                                 /\ UNCHANGED << requests, willClose, cwf, 
                                                 connected, total, obufs, 
                                                 rotate, reqLock, outOwner, 
                                                 outCount, trig, taskq, 
                                                 accepted, inMap, sockOpen, 
                                                 backlog, inbox, room, wire, 
                                                 nclose, blocked, started, 
                                                 running, decided, 
                                                 execAfterDecision, tornBy, 
                                                 crashed, ci, cr, isr, rdyT, 
                                                 rdyR, rdyW, rdyL, data, piece, 
                                                 locked, chunk, sent, tmp, 
                                                 outlen, req, u, wchunk, wsent, 
                                                 wflushed, wtmp, woutlen, 
                                                 closeOnFinish, aborted, wrote >>

writable_rd_will_close == /\ pc["io"] = "writable_rd_will_close"
                          /\ IF willClose
                                THEN /\ isw' = TRUE
                                     /\ pc' = [pc EXCEPT !["io"] = "poll_select_loop"]
                                ELSE /\ pc' = [pc EXCEPT !["io"] = "writable_rd_close_when_flushed"]
                                     /\ isw' = isw
                          /\ UNCHANGED << requests, willClose, cwf, connected, 
                                          total, obufs, rotate, reqLock, 
                                          outOwner, outCount, trig, taskq, 
                                          accepted, inMap, sockOpen, backlog, 
                                          inbox, room, wire, nclose, blocked, 
                                          started, running, decided, 
                                          execAfterDecision, tornBy, crashed, 
                                          ci, cr, isr, rdyT, rdyR, rdyW, rdyL, 
                                          data, piece, locked, chunk, sent, 
                                          tmp, outlen, req, u, wchunk, wsent, 
                                          wflushed, wtmp, woutlen, 
                                          closeOnFinish, aborted, wrote >>

writable_rd_close_when_flushed == /\ pc["io"] = "writable_rd_close_when_flushed"
                                  /\ isw' = cwf
                                  /\ pc' = [pc EXCEPT !["io"] = "poll_select_loop"]
                                  /\ UNCHANGED << requests, willClose, cwf, 
                                                  connected, total, obufs, 
                                                  rotate, reqLock, outOwner, 
                                                  outCount, trig, taskq, 
                                                  accepted, inMap, sockOpen, 
                                                  backlog, inbox, room, wire, 
                                                  nclose, blocked, started, 
                                                  running, decided, 
                                                  execAfterDecision, tornBy, 
                                                  crashed, ci, cr, isr, rdyT, 
                                                  rdyR, rdyW, rdyL, data, 
                                                  piece, locked, chunk, sent, 
                                                  tmp, outlen, req, u, wchunk, 
                                                  wsent, wflushed, wtmp, 
                                                  woutlen, closeOnFinish, 
                                                  aborted, wrote >>

io == io_poll \/ poll_select_loop \/ io_accept \/ accept_accept_L
         \/ init_wr_connected \/ init_wr_requests \/ io_trig
         \/ recv_drain_trigger \/ io_read \/ handle_read_event_rd_connected
         \/ recv_recv_sock \/ received_acq_requests_lock
         \/ received_rd_will_close \/ received_rd_close_when_flushed
         \/ io_received_loop \/ received_rd_requests
         \/ received_rd_requests_2 \/ received_rel_requests_lock
         \/ io_write \/ handle_write_event_rd_connected
         \/ handle_write_rd_requests \/ handle_write_rd_total_outbufs_len
         \/ flush_some_if_lockable_tryacq_outbuf_lock \/ io_fs
         \/ io_fs_loop \/ send_send_sock_io
         \/ flush_some_rd_total_outbufs_len_io
         \/ flush_some_wr_total_outbufs_len_io
         \/ flush_some_if_lockable_rd_total_outbufs_len
         \/ flush_some_if_lockable_notify_outbuf_lock
         \/ flush_some_if_lockable_rel_outbuf_lock
         \/ handle_write_rd_close_when_flushed
         \/ handle_write_rd_total_outbufs_len_2
         \/ handle_write_wr_close_when_flushed
         \/ handle_write_wr_will_close \/ handle_write_rd_will_close
         \/ handle_close_acq_outbuf_lock
         \/ handle_close_wr_total_outbufs_len \/ handle_close_wr_connected
         \/ handle_close_notify_outbuf_lock \/ handle_close_rel_outbuf_lock
         \/ close_wr_connected \/ close_close_sock
         \/ readable_rd_will_close \/ readable_rd_close_when_flushed
         \/ readable_rd_requests \/ readable_rd_total_outbufs_len
         \/ writable_rd_total_outbufs_len \/ writable_rd_will_close
         \/ writable_rd_close_when_flushed

w_idle(self) == /\ pc[self] = "w_idle"
                /\ pc' = [pc EXCEPT ![self] = "service_rd_requests"]
                /\ UNCHANGED << requests, willClose, cwf, connected, total, 
                                obufs, rotate, reqLock, outOwner, outCount, 
                                trig, taskq, accepted, inMap, sockOpen, 
                                backlog, inbox, room, wire, nclose, blocked, 
                                started, running, decided, execAfterDecision, 
                                tornBy, crashed, ci, cr, isr, isw, rdyT, rdyR, 
                                rdyW, rdyL, data, piece, locked, chunk, sent, 
                                tmp, outlen, req, u, wchunk, wsent, wflushed, 
                                wtmp, woutlen, closeOnFinish, aborted, wrote >>

service_rd_requests(self) == /\ pc[self] = "service_rd_requests"
                             /\ taskq > 0
                             /\ taskq' = taskq - 1
                             /\ IF requests = <<>>
                                   THEN /\ crashed' = (crashed \cup {self})
                                        /\ pc' = [pc EXCEPT ![self] = "w_idle"]
                                        /\ req' = req
                                   ELSE /\ req' = [req EXCEPT ![self] = Head(requests)]
                                        /\ pc' = [pc EXCEPT ![self] = "service_rd_connected"]
                                        /\ UNCHANGED crashed
                             /\ UNCHANGED << requests, willClose, cwf, 
                                             connected, total, obufs, rotate, 
                                             reqLock, outOwner, outCount, trig, 
                                             accepted, inMap, sockOpen, 
                                             backlog, inbox, room, wire, 
                                             nclose, blocked, started, running, 
                                             decided, execAfterDecision, 
                                             tornBy, ci, cr, isr, isw, rdyT, 
                                             rdyR, rdyW, rdyL, data, piece, 
                                             locked, chunk, sent, tmp, outlen, 
                                             u, wchunk, wsent, wflushed, wtmp, 
                                             woutlen, closeOnFinish, aborted, 
                                             wrote >>

service_rd_connected(self) == /\ pc[self] = "service_rd_connected"
                              /\ closeOnFinish' = [closeOnFinish EXCEPT ![self] = req[self].close]
                              /\ aborted' = [aborted EXCEPT ![self] = ~connected]
                              /\ u' = [u EXCEPT ![self] = 1]
                              /\ wrote' = [wrote EXCEPT ![self] = FALSE]
                              /\ IF aborted'[self]
                                    THEN /\ pc' = [pc EXCEPT ![self] = "w_after"]
                                    ELSE /\ pc' = [pc EXCEPT ![self] = "execute_app_next"]
                              /\ UNCHANGED << requests, willClose, cwf, 
                                              connected, total, obufs, rotate, 
                                              reqLock, outOwner, outCount, 
                                              trig, taskq, accepted, inMap, 
                                              sockOpen, backlog, inbox, room, 
                                              wire, nclose, blocked, started, 
                                              running, decided, 
                                              execAfterDecision, tornBy, 
                                              crashed, ci, cr, isr, isw, rdyT, 
                                              rdyR, rdyW, rdyL, data, piece, 
                                              locked, chunk, sent, tmp, outlen, 
                                              req, wchunk, wsent, wflushed, 
                                              wtmp, woutlen >>

execute_app_next(self) == /\ pc[self] = "execute_app_next"
                          /\ started' = Append(started, req[self].rid)
                          /\ running' = running + 1
                          /\ execAfterDecision' = (execAfterDecision \/ decided)
                          /\ pc' = [pc EXCEPT ![self] = "w_units"]
                          /\ UNCHANGED << requests, willClose, cwf, connected, 
                                          total, obufs, rotate, reqLock, 
                                          outOwner, outCount, trig, taskq, 
                                          accepted, inMap, sockOpen, backlog, 
                                          inbox, room, wire, nclose, blocked, 
                                          decided, tornBy, crashed, ci, cr, 
                                          isr, isw, rdyT, rdyR, rdyW, rdyL, 
                                          data, piece, locked, chunk, sent, 
                                          tmp, outlen, req, u, wchunk, wsent, 
                                          wflushed, wtmp, woutlen, 
                                          closeOnFinish, aborted, wrote >>

w_units(self) == /\ pc[self] = "w_units"
                 /\ IF u[self] <= RespUnits
                       THEN /\ pc' = [pc EXCEPT ![self] = "write_soon_rd_connected"]
                       ELSE /\ pc' = [pc EXCEPT ![self] = "execute_app_next_2"]
                 /\ UNCHANGED << requests, willClose, cwf, connected, total, 
                                 obufs, rotate, reqLock, outOwner, outCount, 
                                 trig, taskq, accepted, inMap, sockOpen, 
                                 backlog, inbox, room, wire, nclose, blocked, 
                                 started, running, decided, execAfterDecision, 
                                 tornBy, crashed, ci, cr, isr, isw, rdyT, rdyR, 
                                 rdyW, rdyL, data, piece, locked, chunk, sent, 
                                 tmp, outlen, req, u, wchunk, wsent, wflushed, 
                                 wtmp, woutlen, closeOnFinish, aborted, wrote >>

write_soon_rd_connected(self) == /\ pc[self] = "write_soon_rd_connected"
                                 /\ IF ~connected
                                       THEN /\ aborted' = [aborted EXCEPT ![self] = TRUE]
                                            /\ pc' = [pc EXCEPT ![self] = "w_after"]
                                       ELSE /\ pc' = [pc EXCEPT ![self] = "write_soon_acq_outbuf_lock"]
                                            /\ UNCHANGED aborted
                                 /\ UNCHANGED << requests, willClose, cwf, 
                                                 connected, total, obufs, 
                                                 rotate, reqLock, outOwner, 
                                                 outCount, trig, taskq, 
                                                 accepted, inMap, sockOpen, 
                                                 backlog, inbox, room, wire, 
                                                 nclose, blocked, started, 
                                                 running, decided, 
                                                 execAfterDecision, tornBy, 
                                                 crashed, ci, cr, isr, isw, 
                                                 rdyT, rdyR, rdyW, rdyL, data, 
                                                 piece, locked, chunk, sent, 
                                                 tmp, outlen, req, u, wchunk, 
                                                 wsent, wflushed, wtmp, 
                                                 woutlen, closeOnFinish, wrote >>

write_soon_acq_outbuf_lock(self) == /\ pc[self] = "write_soon_acq_outbuf_lock"
                                    /\ outOwner \in {"free", self}
                                    /\ outOwner' = self
                                    /\ outCount' = outCount + 1
                                    /\ pc' = [pc EXCEPT ![self] = "flush_outbufs_below_high_watermark_rd_total_outbufs_len"]
                                    /\ UNCHANGED << requests, willClose, cwf, 
                                                    connected, total, obufs, 
                                                    rotate, reqLock, trig, 
                                                    taskq, accepted, inMap, 
                                                    sockOpen, backlog, inbox, 
                                                    room, wire, nclose, 
                                                    blocked, started, running, 
                                                    decided, execAfterDecision, 
                                                    tornBy, crashed, ci, cr, 
                                                    isr, isw, rdyT, rdyR, rdyW, 
                                                    rdyL, data, piece, locked, 
                                                    chunk, sent, tmp, outlen, 
                                                    req, u, wchunk, wsent, 
                                                    wflushed, wtmp, woutlen, 
                                                    closeOnFinish, aborted, 
                                                    wrote >>

flush_outbufs_below_high_watermark_rd_total_outbufs_len(self) == /\ pc[self] = "flush_outbufs_below_high_watermark_rd_total_outbufs_len"
                                                                 /\ TRUE
                                                                 /\ pc' = [pc EXCEPT ![self] = "write_soon_rd_connected_2"]
                                                                 /\ UNCHANGED << requests, 
                                                                                 willClose, 
                                                                                 cwf, 
                                                                                 connected, 
                                                                                 total, 
                                                                                 obufs, 
                                                                                 rotate, 
                                                                                 reqLock, 
                                                                                 outOwner, 
                                                                                 outCount, 
                                                                                 trig, 
                                                                                 taskq, 
                                                                                 accepted, 
                                                                                 inMap, 
                                                                                 sockOpen, 
                                                                                 backlog, 
                                                                                 inbox, 
                                                                                 room, 
                                                                                 wire, 
                                                                                 nclose, 
                                                                                 blocked, 
                                                                                 started, 
                                                                                 running, 
                                                                                 decided, 
                                                                                 execAfterDecision, 
                                                                                 tornBy, 
                                                                                 crashed, 
                                                                                 ci, 
                                                                                 cr, 
                                                                                 isr, 
                                                                                 isw, 
                                                                                 rdyT, 
                                                                                 rdyR, 
                                                                                 rdyW, 
                                                                                 rdyL, 
                                                                                 data, 
                                                                                 piece, 
                                                                                 locked, 
                                                                                 chunk, 
                                                                                 sent, 
                                                                                 tmp, 
                                                                                 outlen, 
                                                                                 req, 
                                                                                 u, 
                                                                                 wchunk, 
                                                                                 wsent, 
                                                                                 wflushed, 
                                                                                 wtmp, 
                                                                                 woutlen, 
                                                                                 closeOnFinish, 
                                                                                 aborted, 
                                                                                 wrote >>

write_soon_rd_connected_2(self) == /\ pc[self] = "write_soon_rd_connected_2"
                                   /\ IF ~connected
                                         THEN /\ outCount' = outCount - 1
                                              /\ IF outCount' = 0
                                                    THEN /\ outOwner' = "free"
                                                    ELSE /\ TRUE
                                                         /\ UNCHANGED outOwner
                                              /\ aborted' = [aborted EXCEPT ![self] = TRUE]
                                              /\ pc' = [pc EXCEPT ![self] = "w_after"]
                                         ELSE /\ pc' = [pc EXCEPT ![self] = "write_soon_rd_total_outbufs_len"]
                                              /\ UNCHANGED << outOwner, 
                                                              outCount, 
                                                              aborted >>
                                   /\ UNCHANGED << requests, willClose, cwf, 
                                                   connected, total, obufs, 
                                                   rotate, reqLock, trig, 
                                                   taskq, accepted, inMap, 
                                                   sockOpen, backlog, inbox, 
                                                   room, wire, nclose, blocked, 
                                                   started, running, decided, 
                                                   execAfterDecision, tornBy, 
                                                   crashed, ci, cr, isr, isw, 
                                                   rdyT, rdyR, rdyW, rdyL, 
                                                   data, piece, locked, chunk, 
                                                   sent, tmp, outlen, req, u, 
                                                   wchunk, wsent, wflushed, 
                                                   wtmp, woutlen, 
                                                   closeOnFinish, wrote >>

write_soon_rd_total_outbufs_len(self) == /\ pc[self] = "write_soon_rd_total_outbufs_len"
                                         /\ IF rotate
                                               THEN /\ obufs' = Append(obufs, <<Unit(req[self].rid, u[self])>>)
                                                    /\ rotate' = FALSE
                                               ELSE /\ obufs' = [obufs EXCEPT ![Len(obufs)] = Append(obufs[Len(obufs)], Unit(req[self].rid, u[self]))]
                                                    /\ UNCHANGED rotate
                                         /\ wtmp' = [wtmp EXCEPT ![self] = total]
                                         /\ wrote' = [wrote EXCEPT ![self] = TRUE]
                                         /\ pc' = [pc EXCEPT ![self] = "write_soon_wr_total_outbufs_len"]
                                         /\ UNCHANGED << requests, willClose, 
                                                         cwf, connected, total, 
                                                         reqLock, outOwner, 
                                                         outCount, trig, taskq, 
                                                         accepted, inMap, 
                                                         sockOpen, backlog, 
                                                         inbox, room, wire, 
                                                         nclose, blocked, 
                                                         started, running, 
                                                         decided, 
                                                         execAfterDecision, 
                                                         tornBy, crashed, ci, 
                                                         cr, isr, isw, rdyT, 
                                                         rdyR, rdyW, rdyL, 
                                                         data, piece, locked, 
                                                         chunk, sent, tmp, 
                                                         outlen, req, u, 
                                                         wchunk, wsent, 
                                                         wflushed, woutlen, 
                                                         closeOnFinish, 
                                                         aborted >>

write_soon_wr_total_outbufs_len(self) == /\ pc[self] = "write_soon_wr_total_outbufs_len"
                                         /\ total' = wtmp[self] + 1
                                         /\ pc' = [pc EXCEPT ![self] = "write_soon_rd_total_outbufs_len_2"]
                                         /\ UNCHANGED << requests, willClose, 
                                                         cwf, connected, obufs, 
                                                         rotate, reqLock, 
                                                         outOwner, outCount, 
                                                         trig, taskq, accepted, 
                                                         inMap, sockOpen, 
                                                         backlog, inbox, room, 
                                                         wire, nclose, blocked, 
                                                         started, running, 
                                                         decided, 
                                                         execAfterDecision, 
                                                         tornBy, crashed, ci, 
                                                         cr, isr, isw, rdyT, 
                                                         rdyR, rdyW, rdyL, 
                                                         data, piece, locked, 
                                                         chunk, sent, tmp, 
                                                         outlen, req, u, 
                                                         wchunk, wsent, 
                                                         wflushed, wtmp, 
                                                         woutlen, 
                                                         closeOnFinish, 
                                                         aborted, wrote >>

write_soon_rd_total_outbufs_len_2(self) == /\ pc[self] = "write_soon_rd_total_outbufs_len_2"
                                           /\ wflushed' = [wflushed EXCEPT ![self] = FALSE]
                                           /\ wsent' = [wsent EXCEPT ![self] = 0]
                                           /\ IF total >= SendBytes
                                                 THEN /\ LET ob == IF Len(obufs[1]) = 0 /\ Len(obufs) > 1 THEN Tail(obufs) ELSE obufs IN
                                                           /\ obufs' = ob
                                                           /\ woutlen' = [woutlen EXCEPT ![self] = Len(ob[1])]
                                                           /\ wchunk' = [wchunk EXCEPT ![self] = ob[1]]
                                                      /\ pc' = [pc EXCEPT ![self] = "w_fs_loop"]
                                                 ELSE /\ pc' = [pc EXCEPT ![self] = "write_soon_rel_outbuf_lock"]
                                                      /\ UNCHANGED << obufs, 
                                                                      wchunk, 
                                                                      woutlen >>
                                           /\ UNCHANGED << requests, willClose, 
                                                           cwf, connected, 
                                                           total, rotate, 
                                                           reqLock, outOwner, 
                                                           outCount, trig, 
                                                           taskq, accepted, 
                                                           inMap, sockOpen, 
                                                           backlog, inbox, 
                                                           room, wire, nclose, 
                                                           blocked, started, 
                                                           running, decided, 
                                                           execAfterDecision, 
                                                           tornBy, crashed, ci, 
                                                           cr, isr, isw, rdyT, 
                                                           rdyR, rdyW, rdyL, 
                                                           data, piece, locked, 
                                                           chunk, sent, tmp, 
                                                           outlen, req, u, 
                                                           wtmp, closeOnFinish, 
                                                           aborted, wrote >>

w_fs_loop(self) == /\ pc[self] = "w_fs_loop"
                   /\ IF woutlen[self] > 0
                         THEN /\ pc' = [pc EXCEPT ![self] = "send_send_sock_w"]
                         ELSE /\ pc' = [pc EXCEPT ![self] = "w_fs_after"]
                   /\ UNCHANGED << requests, willClose, cwf, connected, total, 
                                   obufs, rotate, reqLock, outOwner, outCount, 
                                   trig, taskq, accepted, inMap, sockOpen, 
                                   backlog, inbox, room, wire, nclose, blocked, 
                                   started, running, decided, 
                                   execAfterDecision, tornBy, crashed, ci, cr, 
                                   isr, isw, rdyT, rdyR, rdyW, rdyL, data, 
                                   piece, locked, chunk, sent, tmp, outlen, 
                                   req, u, wchunk, wsent, wflushed, wtmp, 
                                   woutlen, closeOnFinish, aborted, wrote >>

send_send_sock_w(self) == /\ pc[self] = "send_send_sock_w"
                          /\ wsent' = [wsent EXCEPT ![self] = IF room = Unlimited THEN Len(wchunk[self]) ELSE Min2(Len(wchunk[self]), room)]
                          /\ wire' = wire \o SubSeq(wchunk[self], 1, wsent'[self])
                          /\ room' = (IF room = Unlimited THEN Unlimited ELSE room - wsent'[self])
                          /\ IF wsent'[self] = 0
                                THEN /\ blocked' = blocked + 1
                                     /\ pc' = [pc EXCEPT ![self] = "w_fs_after"]
                                     /\ UNCHANGED << obufs, crashed, wflushed, 
                                                     woutlen >>
                                ELSE /\ IF wsent'[self] > Len(obufs[1])
                                           THEN /\ crashed' = (crashed \cup {self})
                                                /\ pc' = [pc EXCEPT ![self] = "w_fs_after"]
                                                /\ UNCHANGED << obufs, 
                                                                wflushed, 
                                                                woutlen >>
                                           ELSE /\ obufs' = [obufs EXCEPT ![1] = SubSeq(obufs[1], wsent'[self] + 1, Len(obufs[1]))]
                                                /\ woutlen' = [woutlen EXCEPT ![self] = woutlen[self] - wsent'[self]]
                                                /\ wflushed' = [wflushed EXCEPT ![self] = TRUE]
                                                /\ pc' = [pc EXCEPT ![self] = "flush_some_rd_total_outbufs_len_w"]
                                                /\ UNCHANGED crashed
                                     /\ UNCHANGED blocked
                          /\ UNCHANGED << requests, willClose, cwf, connected, 
                                          total, rotate, reqLock, outOwner, 
                                          outCount, trig, taskq, accepted, 
                                          inMap, sockOpen, backlog, inbox, 
                                          nclose, started, running, decided, 
                                          execAfterDecision, tornBy, ci, cr, 
                                          isr, isw, rdyT, rdyR, rdyW, rdyL, 
                                          data, piece, locked, chunk, sent, 
                                          tmp, outlen, req, u, wchunk, wtmp, 
                                          closeOnFinish, aborted, wrote >>

flush_some_rd_total_outbufs_len_w(self) == /\ pc[self] = "flush_some_rd_total_outbufs_len_w"
                                           /\ wtmp' = [wtmp EXCEPT ![self] = total]
                                           /\ pc' = [pc EXCEPT ![self] = "flush_some_wr_total_outbufs_len_w"]
                                           /\ UNCHANGED << requests, willClose, 
                                                           cwf, connected, 
                                                           total, obufs, 
                                                           rotate, reqLock, 
                                                           outOwner, outCount, 
                                                           trig, taskq, 
                                                           accepted, inMap, 
                                                           sockOpen, backlog, 
                                                           inbox, room, wire, 
                                                           nclose, blocked, 
                                                           started, running, 
                                                           decided, 
                                                           execAfterDecision, 
                                                           tornBy, crashed, ci, 
                                                           cr, isr, isw, rdyT, 
                                                           rdyR, rdyW, rdyL, 
                                                           data, piece, locked, 
                                                           chunk, sent, tmp, 
                                                           outlen, req, u, 
                                                           wchunk, wsent, 
                                                           wflushed, woutlen, 
                                                           closeOnFinish, 
                                                           aborted, wrote >>

flush_some_wr_total_outbufs_len_w(self) == /\ pc[self] = "flush_some_wr_total_outbufs_len_w"
                                           /\ total' = wtmp[self] - wsent[self]
                                           /\ IF woutlen[self] > 0
                                                 THEN /\ wchunk' = [wchunk EXCEPT ![self] = obufs[1]]
                                                      /\ UNCHANGED << obufs, 
                                                                      woutlen >>
                                                 ELSE /\ IF Len(obufs) > 1
                                                            THEN /\ obufs' = Tail(obufs)
                                                                 /\ woutlen' = [woutlen EXCEPT ![self] = Len(obufs'[1])]
                                                                 /\ wchunk' = [wchunk EXCEPT ![self] = obufs'[1]]
                                                            ELSE /\ TRUE
                                                                 /\ UNCHANGED << obufs, 
                                                                                 wchunk, 
                                                                                 woutlen >>
                                           /\ pc' = [pc EXCEPT ![self] = "w_fs_loop"]
                                           /\ UNCHANGED << requests, willClose, 
                                                           cwf, connected, 
                                                           rotate, reqLock, 
                                                           outOwner, outCount, 
                                                           trig, taskq, 
                                                           accepted, inMap, 
                                                           sockOpen, backlog, 
                                                           inbox, room, wire, 
                                                           nclose, blocked, 
                                                           started, running, 
                                                           decided, 
                                                           execAfterDecision, 
                                                           tornBy, crashed, ci, 
                                                           cr, isr, isw, rdyT, 
                                                           rdyR, rdyW, rdyL, 
                                                           data, piece, locked, 
                                                           chunk, sent, tmp, 
                                                           outlen, req, u, 
                                                           wsent, wflushed, 
                                                           wtmp, closeOnFinish, 
                                                           aborted, wrote >>

w_fs_after(self) == /\ pc[self] = "w_fs_after"
                    /\ IF wflushed[self]
                          THEN /\ pc' = [pc EXCEPT ![self] = "write_soon_rd_total_outbufs_len_3"]
                          ELSE /\ pc' = [pc EXCEPT ![self] = "physical_pull_pull_trigger_ws"]
                    /\ UNCHANGED << requests, willClose, cwf, connected, total, 
                                    obufs, rotate, reqLock, outOwner, outCount, 
                                    trig, taskq, accepted, inMap, sockOpen, 
                                    backlog, inbox, room, wire, nclose, 
                                    blocked, started, running, decided, 
                                    execAfterDecision, tornBy, crashed, ci, cr, 
                                    isr, isw, rdyT, rdyR, rdyW, rdyL, data, 
                                    piece, locked, chunk, sent, tmp, outlen, 
                                    req, u, wchunk, wsent, wflushed, wtmp, 
                                    woutlen, closeOnFinish, aborted, wrote >>

write_soon_rd_total_outbufs_len_3(self) == /\ pc[self] = "write_soon_rd_total_outbufs_len_3"
                                           /\ IF total < SendBytes
                                                 THEN /\ pc' = [pc EXCEPT ![self] = "write_soon_rel_outbuf_lock"]
                                                 ELSE /\ pc' = [pc EXCEPT ![self] = "physical_pull_pull_trigger_ws"]
                                           /\ UNCHANGED << requests, willClose, 
                                                           cwf, connected, 
                                                           total, obufs, 
                                                           rotate, reqLock, 
                                                           outOwner, outCount, 
                                                           trig, taskq, 
                                                           accepted, inMap, 
                                                           sockOpen, backlog, 
                                                           inbox, room, wire, 
                                                           nclose, blocked, 
                                                           started, running, 
                                                           decided, 
                                                           execAfterDecision, 
                                                           tornBy, crashed, ci, 
                                                           cr, isr, isw, rdyT, 
                                                           rdyR, rdyW, rdyL, 
                                                           data, piece, locked, 
                                                           chunk, sent, tmp, 
                                                           outlen, req, u, 
                                                           wchunk, wsent, 
                                                           wflushed, wtmp, 
                                                           woutlen, 
                                                           closeOnFinish, 
                                                           aborted, wrote >>

physical_pull_pull_trigger_ws(self) == /\ pc[self] = "physical_pull_pull_trigger_ws"
                                       /\ trig' = trig + 1
                                       /\ pc' = [pc EXCEPT ![self] = "write_soon_rel_outbuf_lock"]
                                       /\ UNCHANGED << requests, willClose, 
                                                       cwf, connected, total, 
                                                       obufs, rotate, reqLock, 
                                                       outOwner, outCount, 
                                                       taskq, accepted, inMap, 
                                                       sockOpen, backlog, 
                                                       inbox, room, wire, 
                                                       nclose, blocked, 
                                                       started, running, 
                                                       decided, 
                                                       execAfterDecision, 
                                                       tornBy, crashed, ci, cr, 
                                                       isr, isw, rdyT, rdyR, 
                                                       rdyW, rdyL, data, piece, 
                                                       locked, chunk, sent, 
                                                       tmp, outlen, req, u, 
                                                       wchunk, wsent, wflushed, 
                                                       wtmp, woutlen, 
                                                       closeOnFinish, aborted, 
                                                       wrote >>

write_soon_rel_outbuf_lock(self) == /\ pc[self] = "write_soon_rel_outbuf_lock"
                                    /\ outCount' = outCount - 1
                                    /\ IF outCount' = 0
                                          THEN /\ outOwner' = "free"
                                          ELSE /\ TRUE
                                               /\ UNCHANGED outOwner
                                    /\ u' = [u EXCEPT ![self] = u[self] + 1]
                                    /\ pc' = [pc EXCEPT ![self] = "w_units"]
                                    /\ UNCHANGED << requests, willClose, cwf, 
                                                    connected, total, obufs, 
                                                    rotate, reqLock, trig, 
                                                    taskq, accepted, inMap, 
                                                    sockOpen, backlog, inbox, 
                                                    room, wire, nclose, 
                                                    blocked, started, running, 
                                                    decided, execAfterDecision, 
                                                    tornBy, crashed, ci, cr, 
                                                    isr, isw, rdyT, rdyR, rdyW, 
                                                    rdyL, data, piece, locked, 
                                                    chunk, sent, tmp, outlen, 
                                                    req, wchunk, wsent, 
                                                    wflushed, wtmp, woutlen, 
                                                    closeOnFinish, aborted, 
                                                    wrote >>

execute_app_next_2(self) == /\ pc[self] = "execute_app_next_2"
                            /\ running' = running - 1
                            /\ pc' = [pc EXCEPT ![self] = "w_after"]
                            /\ UNCHANGED << requests, willClose, cwf, 
                                            connected, total, obufs, rotate, 
                                            reqLock, outOwner, outCount, trig, 
                                            taskq, accepted, inMap, sockOpen, 
                                            backlog, inbox, room, wire, nclose, 
                                            blocked, started, decided, 
                                            execAfterDecision, tornBy, crashed, 
                                            ci, cr, isr, isw, rdyT, rdyR, rdyW, 
                                            rdyL, data, piece, locked, chunk, 
                                            sent, tmp, outlen, req, u, wchunk, 
                                            wsent, wflushed, wtmp, woutlen, 
                                            closeOnFinish, aborted, wrote >>

w_after(self) == /\ pc[self] = "w_after"
                 /\ IF aborted[self] /\ running > 0 /\ req[self].rid \in {started[i] : i \in 1..Len(started)} /\ u[self] <= RespUnits
                       THEN /\ running' = running - 1
                       ELSE /\ TRUE
                            /\ UNCHANGED running
                 /\ IF closeOnFinish[self] \/ aborted[self]
                       THEN /\ pc' = [pc EXCEPT ![self] = "service_acq_requests_lock_c"]
                       ELSE /\ pc' = [pc EXCEPT ![self] = "service_rd_will_close"]
                 /\ UNCHANGED << requests, willClose, cwf, connected, total, 
                                 obufs, rotate, reqLock, outOwner, outCount, 
                                 trig, taskq, accepted, inMap, sockOpen, 
                                 backlog, inbox, room, wire, nclose, blocked, 
                                 started, decided, execAfterDecision, tornBy, 
                                 crashed, ci, cr, isr, isw, rdyT, rdyR, rdyW, 
                                 rdyL, data, piece, locked, chunk, sent, tmp, 
                                 outlen, req, u, wchunk, wsent, wflushed, wtmp, 
                                 woutlen, closeOnFinish, aborted, wrote >>

service_rd_will_close(self) == /\ pc[self] = "service_rd_will_close"
                               /\ IF ~willClose
                                     THEN /\ pc' = [pc EXCEPT ![self] = "service_rd_requests_2"]
                                     ELSE /\ pc' = [pc EXCEPT ![self] = "service_acq_requests_lock_c"]
                               /\ UNCHANGED << requests, willClose, cwf, 
                                               connected, total, obufs, rotate, 
                                               reqLock, outOwner, outCount, 
                                               trig, taskq, accepted, inMap, 
                                               sockOpen, backlog, inbox, room, 
                                               wire, nclose, blocked, started, 
                                               running, decided, 
                                               execAfterDecision, tornBy, 
                                               crashed, ci, cr, isr, isw, rdyT, 
                                               rdyR, rdyW, rdyL, data, piece, 
                                               locked, chunk, sent, tmp, 
                                               outlen, req, u, wchunk, wsent, 
                                               wflushed, wtmp, woutlen, 
                                               closeOnFinish, aborted, wrote >>

service_acq_requests_lock_c(self) == /\ pc[self] = "service_acq_requests_lock_c"
                                     /\ reqLock = "free"
                                     /\ reqLock' = self
                                     /\ pc' = [pc EXCEPT ![self] = "service_wr_close_when_flushed"]
                                     /\ UNCHANGED << requests, willClose, cwf, 
                                                     connected, total, obufs, 
                                                     rotate, outOwner, 
                                                     outCount, trig, taskq, 
                                                     accepted, inMap, sockOpen, 
                                                     backlog, inbox, room, 
                                                     wire, nclose, blocked, 
                                                     started, running, decided, 
                                                     execAfterDecision, tornBy, 
                                                     crashed, ci, cr, isr, isw, 
                                                     rdyT, rdyR, rdyW, rdyL, 
                                                     data, piece, locked, 
                                                     chunk, sent, tmp, outlen, 
                                                     req, u, wchunk, wsent, 
                                                     wflushed, wtmp, woutlen, 
                                                     closeOnFinish, aborted, 
                                                     wrote >>

service_wr_close_when_flushed(self) == /\ pc[self] = "service_wr_close_when_flushed"
                                       /\ cwf' = TRUE
                                       /\ decided' = TRUE
                                       /\ pc' = [pc EXCEPT ![self] = "service_rd_requests_c"]
                                       /\ UNCHANGED << requests, willClose, 
                                                       connected, total, obufs, 
                                                       rotate, reqLock, 
                                                       outOwner, outCount, 
                                                       trig, taskq, accepted, 
                                                       inMap, sockOpen, 
                                                       backlog, inbox, room, 
                                                       wire, nclose, blocked, 
                                                       started, running, 
                                                       execAfterDecision, 
                                                       tornBy, crashed, ci, cr, 
                                                       isr, isw, rdyT, rdyR, 
                                                       rdyW, rdyL, data, piece, 
                                                       locked, chunk, sent, 
                                                       tmp, outlen, req, u, 
                                                       wchunk, wsent, wflushed, 
                                                       wtmp, woutlen, 
                                                       closeOnFinish, aborted, 
                                                       wrote >>

service_rd_requests_c(self) == /\ pc[self] = "service_rd_requests_c"
                               /\ TRUE
                               /\ pc' = [pc EXCEPT ![self] = "service_wr_requests_c"]
                               /\ UNCHANGED << requests, willClose, cwf, 
                                               connected, total, obufs, rotate, 
                                               reqLock, outOwner, outCount, 
                                               trig, taskq, accepted, inMap, 
                                               sockOpen, backlog, inbox, room, 
                                               wire, nclose, blocked, started, 
                                               running, decided, 
                                               execAfterDecision, tornBy, 
                                               crashed, ci, cr, isr, isw, rdyT, 
                                               rdyR, rdyW, rdyL, data, piece, 
                                               locked, chunk, sent, tmp, 
                                               outlen, req, u, wchunk, wsent, 
                                               wflushed, wtmp, woutlen, 
                                               closeOnFinish, aborted, wrote >>

service_wr_requests_c(self) == /\ pc[self] = "service_wr_requests_c"
                               /\ requests' = <<>>
                               /\ pc' = [pc EXCEPT ![self] = "service_rel_requests_lock_c"]
                               /\ UNCHANGED << willClose, cwf, connected, 
                                               total, obufs, rotate, reqLock, 
                                               outOwner, outCount, trig, taskq, 
                                               accepted, inMap, sockOpen, 
                                               backlog, inbox, room, wire, 
                                               nclose, blocked, started, 
                                               running, decided, 
                                               execAfterDecision, tornBy, 
                                               crashed, ci, cr, isr, isw, rdyT, 
                                               rdyR, rdyW, rdyL, data, piece, 
                                               locked, chunk, sent, tmp, 
                                               outlen, req, u, wchunk, wsent, 
                                               wflushed, wtmp, woutlen, 
                                               closeOnFinish, aborted, wrote >>

service_rel_requests_lock_c(self) == /\ pc[self] = "service_rel_requests_lock_c"
                                     /\ reqLock' = "free"
                                     /\ pc' = [pc EXCEPT ![self] = "service_rd_connected_4"]
                                     /\ UNCHANGED << requests, willClose, cwf, 
                                                     connected, total, obufs, 
                                                     rotate, outOwner, 
                                                     outCount, trig, taskq, 
                                                     accepted, inMap, sockOpen, 
                                                     backlog, inbox, room, 
                                                     wire, nclose, blocked, 
                                                     started, running, decided, 
                                                     execAfterDecision, tornBy, 
                                                     crashed, ci, cr, isr, isw, 
                                                     rdyT, rdyR, rdyW, rdyL, 
                                                     data, piece, locked, 
                                                     chunk, sent, tmp, outlen, 
                                                     req, u, wchunk, wsent, 
                                                     wflushed, wtmp, woutlen, 
                                                     closeOnFinish, aborted, 
                                                     wrote >>

service_rd_requests_2(self) == /\ pc[self] = "service_rd_requests_2"
                               /\ IF Len(requests) > 1
                                     THEN /\ pc' = [pc EXCEPT ![self] = "flush_outbufs_below_high_watermark_rd_total_outbufs_len_s"]
                                     ELSE /\ pc' = [pc EXCEPT ![self] = "w_rotate"]
                               /\ UNCHANGED << requests, willClose, cwf, 
                                               connected, total, obufs, rotate, 
                                               reqLock, outOwner, outCount, 
                                               trig, taskq, accepted, inMap, 
                                               sockOpen, backlog, inbox, room, 
                                               wire, nclose, blocked, started, 
                                               running, decided, 
                                               execAfterDecision, tornBy, 
                                               crashed, ci, cr, isr, isw, rdyT, 
                                               rdyR, rdyW, rdyL, data, piece, 
                                               locked, chunk, sent, tmp, 
                                               outlen, req, u, wchunk, wsent, 
                                               wflushed, wtmp, woutlen, 
                                               closeOnFinish, aborted, wrote >>

flush_outbufs_below_high_watermark_rd_total_outbufs_len_s(self) == /\ pc[self] = "flush_outbufs_below_high_watermark_rd_total_outbufs_len_s"
                                                                   /\ TRUE
                                                                   /\ pc' = [pc EXCEPT ![self] = "w_rotate"]
                                                                   /\ UNCHANGED << requests, 
                                                                                   willClose, 
                                                                                   cwf, 
                                                                                   connected, 
                                                                                   total, 
                                                                                   obufs, 
                                                                                   rotate, 
                                                                                   reqLock, 
                                                                                   outOwner, 
                                                                                   outCount, 
                                                                                   trig, 
                                                                                   taskq, 
                                                                                   accepted, 
                                                                                   inMap, 
                                                                                   sockOpen, 
                                                                                   backlog, 
                                                                                   inbox, 
                                                                                   room, 
                                                                                   wire, 
                                                                                   nclose, 
                                                                                   blocked, 
                                                                                   started, 
                                                                                   running, 
                                                                                   decided, 
                                                                                   execAfterDecision, 
                                                                                   tornBy, 
                                                                                   crashed, 
                                                                                   ci, 
                                                                                   cr, 
                                                                                   isr, 
                                                                                   isw, 
                                                                                   rdyT, 
                                                                                   rdyR, 
                                                                                   rdyW, 
                                                                                   rdyL, 
                                                                                   data, 
                                                                                   piece, 
                                                                                   locked, 
                                                                                   chunk, 
                                                                                   sent, 
                                                                                   tmp, 
                                                                                   outlen, 
                                                                                   req, 
                                                                                   u, 
                                                                                   wchunk, 
                                                                                   wsent, 
                                                                                   wflushed, 
                                                                                   wtmp, 
                                                                                   woutlen, 
                                                                                   closeOnFinish, 
                                                                                   aborted, 
                                                                                   wrote >>

w_rotate(self) == /\ pc[self] = "w_rotate"
                  /\ rotate' = (rotate \/ wrote[self])
                  /\ pc' = [pc EXCEPT ![self] = "service_acq_requests_lock"]
                  /\ UNCHANGED << requests, willClose, cwf, connected, total, 
                                  obufs, reqLock, outOwner, outCount, trig, 
                                  taskq, accepted, inMap, sockOpen, backlog, 
                                  inbox, room, wire, nclose, blocked, started, 
                                  running, decided, execAfterDecision, tornBy, 
                                  crashed, ci, cr, isr, isw, rdyT, rdyR, rdyW, 
                                  rdyL, data, piece, locked, chunk, sent, tmp, 
                                  outlen, req, u, wchunk, wsent, wflushed, 
                                  wtmp, woutlen, closeOnFinish, aborted, wrote >>

service_acq_requests_lock(self) == /\ pc[self] = "service_acq_requests_lock"
                                   /\ reqLock = "free"
                                   /\ reqLock' = self
                                   /\ pc' = [pc EXCEPT ![self] = "service_rd_requests_3"]
                                   /\ UNCHANGED << requests, willClose, cwf, 
                                                   connected, total, obufs, 
                                                   rotate, outOwner, outCount, 
                                                   trig, taskq, accepted, 
                                                   inMap, sockOpen, backlog, 
                                                   inbox, room, wire, nclose, 
                                                   blocked, started, running, 
                                                   decided, execAfterDecision, 
                                                   tornBy, crashed, ci, cr, 
                                                   isr, isw, rdyT, rdyR, rdyW, 
                                                   rdyL, data, piece, locked, 
                                                   chunk, sent, tmp, outlen, 
                                                   req, u, wchunk, wsent, 
                                                   wflushed, wtmp, woutlen, 
                                                   closeOnFinish, aborted, 
                                                   wrote >>

service_rd_requests_3(self) == /\ pc[self] = "service_rd_requests_3"
                               /\ IF requests = <<>>
                                     THEN /\ crashed' = (crashed \cup {self})
                                          /\ UNCHANGED requests
                                     ELSE /\ requests' = Tail(requests)
                                          /\ UNCHANGED crashed
                               /\ pc' = [pc EXCEPT ![self] = "service_rd_connected_2"]
                               /\ UNCHANGED << willClose, cwf, connected, 
                                               total, obufs, rotate, reqLock, 
                                               outOwner, outCount, trig, taskq, 
                                               accepted, inMap, sockOpen, 
                                               backlog, inbox, room, wire, 
                                               nclose, blocked, started, 
                                               running, decided, 
                                               execAfterDecision, tornBy, ci, 
                                               cr, isr, isw, rdyT, rdyR, rdyW, 
                                               rdyL, data, piece, locked, 
                                               chunk, sent, tmp, outlen, req, 
                                               u, wchunk, wsent, wflushed, 
                                               wtmp, woutlen, closeOnFinish, 
                                               aborted, wrote >>

service_rd_connected_2(self) == /\ pc[self] = "service_rd_connected_2"
                                /\ IF connected
                                      THEN /\ pc' = [pc EXCEPT ![self] = "service_rd_requests_4"]
                                      ELSE /\ pc' = [pc EXCEPT ![self] = "service_rd_connected_3"]
                                /\ UNCHANGED << requests, willClose, cwf, 
                                                connected, total, obufs, 
                                                rotate, reqLock, outOwner, 
                                                outCount, trig, taskq, 
                                                accepted, inMap, sockOpen, 
                                                backlog, inbox, room, wire, 
                                                nclose, blocked, started, 
                                                running, decided, 
                                                execAfterDecision, tornBy, 
                                                crashed, ci, cr, isr, isw, 
                                                rdyT, rdyR, rdyW, rdyL, data, 
                                                piece, locked, chunk, sent, 
                                                tmp, outlen, req, u, wchunk, 
                                                wsent, wflushed, wtmp, woutlen, 
                                                closeOnFinish, aborted, wrote >>

service_rd_requests_4(self) == /\ pc[self] = "service_rd_requests_4"
                               /\ IF requests # <<>>
                                     THEN /\ taskq' = taskq + 1
                                          /\ pc' = [pc EXCEPT ![self] = "service_rel_requests_lock"]
                                     ELSE /\ pc' = [pc EXCEPT ![self] = "service_rd_connected_3"]
                                          /\ taskq' = taskq
                               /\ UNCHANGED << requests, willClose, cwf, 
                                               connected, total, obufs, rotate, 
                                               reqLock, outOwner, outCount, 
                                               trig, accepted, inMap, sockOpen, 
                                               backlog, inbox, room, wire, 
                                               nclose, blocked, started, 
                                               running, decided, 
                                               execAfterDecision, tornBy, 
                                               crashed, ci, cr, isr, isw, rdyT, 
                                               rdyR, rdyW, rdyL, data, piece, 
                                               locked, chunk, sent, tmp, 
                                               outlen, req, u, wchunk, wsent, 
                                               wflushed, wtmp, woutlen, 
                                               closeOnFinish, aborted, wrote >>

service_rd_connected_3(self) == /\ pc[self] = "service_rd_connected_3"
                                /\ TRUE
                                /\ pc' = [pc EXCEPT ![self] = "service_rel_requests_lock"]
                                /\ UNCHANGED << requests, willClose, cwf, 
                                                connected, total, obufs, 
                                                rotate, reqLock, outOwner, 
                                                outCount, trig, taskq, 
                                                accepted, inMap, sockOpen, 
                                                backlog, inbox, room, wire, 
                                                nclose, blocked, started, 
                                                running, decided, 
                                                execAfterDecision, tornBy, 
                                                crashed, ci, cr, isr, isw, 
                                                rdyT, rdyR, rdyW, rdyL, data, 
                                                piece, locked, chunk, sent, 
                                                tmp, outlen, req, u, wchunk, 
                                                wsent, wflushed, wtmp, woutlen, 
                                                closeOnFinish, aborted, wrote >>

service_rel_requests_lock(self) == /\ pc[self] = "service_rel_requests_lock"
                                   /\ reqLock' = "free"
                                   /\ pc' = [pc EXCEPT ![self] = "service_rd_connected_4"]
                                   /\ UNCHANGED << requests, willClose, cwf, 
                                                   connected, total, obufs, 
                                                   rotate, outOwner, outCount, 
                                                   trig, taskq, accepted, 
                                                   inMap, sockOpen, backlog, 
                                                   inbox, room, wire, nclose, 
                                                   blocked, started, running, 
                                                   decided, execAfterDecision, 
                                                   tornBy, crashed, ci, cr, 
                                                   isr, isw, rdyT, rdyR, rdyW, 
                                                   rdyL, data, piece, locked, 
                                                   chunk, sent, tmp, outlen, 
                                                   req, u, wchunk, wsent, 
                                                   wflushed, wtmp, woutlen, 
                                                   closeOnFinish, aborted, 
                                                   wrote >>

service_rd_connected_4(self) == /\ pc[self] = "service_rd_connected_4"
                                /\ IF connected
                                      THEN /\ pc' = [pc EXCEPT ![self] = "physical_pull_pull_trigger_svc"]
                                      ELSE /\ pc' = [pc EXCEPT ![self] = "w_idle"]
                                /\ UNCHANGED << requests, willClose, cwf, 
                                                connected, total, obufs, 
                                                rotate, reqLock, outOwner, 
                                                outCount, trig, taskq, 
                                                accepted, inMap, sockOpen, 
                                                backlog, inbox, room, wire, 
                                                nclose, blocked, started, 
                                                running, decided, 
                                                execAfterDecision, tornBy, 
                                                crashed, ci, cr, isr, isw, 
                                                rdyT, rdyR, rdyW, rdyL, data, 
                                                piece, locked, chunk, sent, 
                                                tmp, outlen, req, u, wchunk, 
                                                wsent, wflushed, wtmp, woutlen, 
                                                closeOnFinish, aborted, wrote >>

physical_pull_pull_trigger_svc(self) == /\ pc[self] = "physical_pull_pull_trigger_svc"
                                        /\ trig' = trig + 1
                                        /\ pc' = [pc EXCEPT ![self] = "w_idle"]
                                        /\ UNCHANGED << requests, willClose, 
                                                        cwf, connected, total, 
                                                        obufs, rotate, reqLock, 
                                                        outOwner, outCount, 
                                                        taskq, accepted, inMap, 
                                                        sockOpen, backlog, 
                                                        inbox, room, wire, 
                                                        nclose, blocked, 
                                                        started, running, 
                                                        decided, 
                                                        execAfterDecision, 
                                                        tornBy, crashed, ci, 
                                                        cr, isr, isw, rdyT, 
                                                        rdyR, rdyW, rdyL, data, 
                                                        piece, locked, chunk, 
                                                        sent, tmp, outlen, req, 
                                                        u, wchunk, wsent, 
                                                        wflushed, wtmp, 
                                                        woutlen, closeOnFinish, 
                                                        aborted, wrote >>

worker(self) == w_idle(self) \/ service_rd_requests(self)
                   \/ service_rd_connected(self) \/ execute_app_next(self)
                   \/ w_units(self) \/ write_soon_rd_connected(self)
                   \/ write_soon_acq_outbuf_lock(self)
                   \/ flush_outbufs_below_high_watermark_rd_total_outbufs_len(self)
                   \/ write_soon_rd_connected_2(self)
                   \/ write_soon_rd_total_outbufs_len(self)
                   \/ write_soon_wr_total_outbufs_len(self)
                   \/ write_soon_rd_total_outbufs_len_2(self)
                   \/ w_fs_loop(self) \/ send_send_sock_w(self)
                   \/ flush_some_rd_total_outbufs_len_w(self)
                   \/ flush_some_wr_total_outbufs_len_w(self)
                   \/ w_fs_after(self)
                   \/ write_soon_rd_total_outbufs_len_3(self)
                   \/ physical_pull_pull_trigger_ws(self)
                   \/ write_soon_rel_outbuf_lock(self)
                   \/ execute_app_next_2(self) \/ w_after(self)
                   \/ service_rd_will_close(self)
                   \/ service_acq_requests_lock_c(self)
                   \/ service_wr_close_when_flushed(self)
                   \/ service_rd_requests_c(self)
                   \/ service_wr_requests_c(self)
                   \/ service_rel_requests_lock_c(self)
                   \/ service_rd_requests_2(self)
                   \/ flush_outbufs_below_high_watermark_rd_total_outbufs_len_s(self)
                   \/ w_rotate(self) \/ service_acq_requests_lock(self)
                   \/ service_rd_requests_3(self)
                   \/ service_rd_connected_2(self)
                   \/ service_rd_requests_4(self)
                   \/ service_rd_connected_3(self)
                   \/ service_rel_requests_lock(self)
                   \/ service_rd_connected_4(self)
                   \/ physical_pull_pull_trigger_svc(self)

Next == client \/ io
           \/ (\E self \in Workers: worker(self))

Spec == Init /\ [][Next]_vars

\* END TRANSLATION

(* ---- properties that mention the next-state relation ---- *)
Quiescent == ~ENABLED Next
(* C05: with the poll timeout infinite, the system never comes to rest while work is left on an open connection *)
NoLostWakeup == Quiescent => (inMap => (total = 0 /\ requests = <<>> /\ taskq = 0 /\ ~willClose /\ ~cwf /\ inbox = <<>>))
(* C04/C05: at rest, every request the client sent has been answered completely, or the connection was closed *)
AllAnswered == Quiescent => (~inMap \/ wire = Concat(ReqSeq, 1))
=============================================================================
