------------------------------ MODULE ServerOps ------------------------------
(* Admission and reaping (C18): BaseWSGIServer.readable() / maintenance() /    *)
(* handle_accept(), HTTPChannel readable/writable/handle_read/handle_write and *)
(* the select-based wasyncore.poll(), single-threaded, under an integer clock. *)
(* One environment event, then the loop runs until nothing is ready any more   *)
(* (Settle).  State record s:                                                  *)
(*   now, nl (listeners), limit, timeout, cleanup                              *)
(*   nextc[i], over[i], backlog[i]       per listening socket                  *)
(*   ch[c] = [st, owner, inbox, busy, pend, room, last, wc]  per connection    *)
(*           st: "none" | "queued" (in a backlog) | "open" | "closed"          *)
(*           inbox: 0 nothing, 1 part of a request, 2 the rest / a whole one   *)
EXTENDS Integers, Sequences, FiniteSets, TLC

CONSTANT MaxConn
Conns == 1..MaxConn

S0(nl, limit, timeout, cleanup) ==
  [now |-> 0, nl |-> nl, limit |-> limit, timeout |-> timeout, cleanup |-> cleanup,
   nextc |-> [i \in 1..nl |-> 0], over |-> [i \in 1..nl |-> FALSE], backlog |-> [i \in 1..nl |-> <<>>],
   ch |-> [c \in Conns |-> [st |-> "none", owner |-> 0, inbox |-> 0, busy |-> FALSE, pend |-> FALSE, room |-> TRUE,
                            last |-> 0, wc |-> FALSE, partial |-> FALSE]]]

Open(s) == {c \in Conns : s.ch[c].st = "open"}
(* every listening socket comes with its own wake-up pipe *)
MapSize(s) == 2 * s.nl + Cardinality(Open(s))

(* ---- one poll() iteration ---- *)
(* listener i: readable() = maintenance when due, then the overflow hysteresis *)
Maint(s, i) ==
  IF s.now >= s.nextc[i]
     THEN [s EXCEPT !.nextc[i] = s.now + s.cleanup,
                    !.ch = [c \in Conns |-> IF s.ch[c].st = "open" /\ s.ch[c].owner = i /\ ~s.ch[c].busy /\ s.ch[c].last < s.now - s.timeout
                                               THEN [s.ch[c] EXCEPT !.wc = TRUE] ELSE s.ch[c]]]
     ELSE s
Hyst(s, i) == IF ~s.over[i] /\ MapSize(s) >= s.limit THEN [s EXCEPT !.over[i] = TRUE]
              ELSE IF s.over[i] /\ MapSize(s) < s.limit THEN [s EXCEPT !.over[i] = FALSE] ELSE s
RECURSIVE Predicates(_, _)
Predicates(s, i) == IF i > s.nl THEN s ELSE Predicates(Hyst(Maint(s, i), i), i + 1)

ChanReadable(s, c) == LET x == s.ch[c] IN x.st = "open" /\ ~x.wc /\ ~x.busy /\ ~x.pend /\ x.inbox > 0
ChanWritable(s, c) == LET x == s.ch[c] IN x.st = "open" /\ (x.pend \/ x.wc) /\ x.room

RECURSIVE Accepts(_, _, _)
Accepts(s, i, ready) ==   \* the listeners found readable by select, in map order
  IF i > s.nl THEN s
  ELSE IF i \in ready /\ s.backlog[i] # <<>>
          THEN LET c == Head(s.backlog[i])
               IN Accepts([s EXCEPT !.backlog[i] = Tail(@),
                                    !.ch[c] = [@ EXCEPT !.st = "open", !.owner = i, !.last = s.now]], i + 1, ready)
          ELSE Accepts(s, i + 1, ready)

ReadOne(s, c) == LET x == s.ch[c]
                 IN IF x.inbox = 1 THEN [s EXCEPT !.ch[c] = [@ EXCEPT !.inbox = 0, !.partial = TRUE, !.last = s.now]]
                    ELSE [s EXCEPT !.ch[c] = [@ EXCEPT !.inbox = 0, !.partial = FALSE, !.busy = TRUE, !.last = s.now]]
WriteOne(s, c) == LET x == s.ch[c]
                      x1 == IF x.pend THEN [x EXCEPT !.pend = FALSE, !.last = s.now] ELSE x
                  IN [s EXCEPT !.ch[c] = IF x1.wc THEN [x1 EXCEPT !.st = "closed"] ELSE x1]
SetMin(S) == CHOOSE x \in S : \A y \in S : x <= y
RECURSIVE FoldRead(_, _)
FoldRead(s, set) == IF set = {} THEN s ELSE FoldRead(ReadOne(s, SetMin(set)), set \ {SetMin(set)})
RECURSIVE FoldWrite(_, _)
FoldWrite(s, set) == IF set = {} THEN s ELSE FoldWrite(WriteOne(s, SetMin(set)), set \ {SetMin(set)})

Iter(s) ==
  LET s1 == Predicates(s, 1)
      rl == {i \in 1..s1.nl : ~s1.over[i] /\ s1.backlog[i] # <<>>}
      rc == {c \in Conns : ChanReadable(s1, c)}
      wc == {c \in Conns : ChanWritable(s1, c)}
      s2 == Accepts(s1, 1, rl)
      s3 == FoldRead(s2, rc)
  IN FoldWrite(s3, wc)

RECURSIVE Settle(_, _)
Settle(s, n) == LET t == Iter(s) IN IF t = s \/ n = 0 THEN t ELSE Settle(t, n - 1)

(* ---- environment events ---- *)
Event(s, e) ==
  LET c == e.c IN
  CASE e.k = "connect"     -> [s EXCEPT !.backlog[e.l] = Append(@, c), !.ch[c].st = "queued"]
    [] e.k = "sendPartial" -> [s EXCEPT !.ch[c].inbox = 1]
    [] e.k = "sendRest"    -> [s EXCEPT !.ch[c].inbox = 2]
    [] e.k = "clientReads" -> [s EXCEPT !.ch[c].room = TRUE]
    [] e.k = "clientStalls"-> [s EXCEPT !.ch[c].room = FALSE]
    [] e.k = "appFinishes" -> (* the task runs: the response is written; what the socket accepts is sent at once *)
                              [s EXCEPT !.ch[c] = [s.ch[c] EXCEPT !.busy = FALSE, !.last = s.now, !.pend = ~s.ch[c].room]]
    [] e.k = "tick"        -> [s EXCEPT !.now = @ + e.dt]
    [] OTHER -> s

Enabled(s, e) ==
  CASE e.k = "connect"     -> s.ch[e.c].st = "none" /\ e.l \in 1..s.nl
    [] e.k = "sendPartial" -> s.ch[e.c].st \in {"open", "queued"} /\ s.ch[e.c].inbox = 0 /\ ~s.ch[e.c].busy /\ ~s.ch[e.c].partial
    [] e.k = "sendRest"    -> s.ch[e.c].st \in {"open", "queued"} /\ s.ch[e.c].inbox \in {0, 1} /\ ~s.ch[e.c].busy
    [] e.k = "clientReads" -> s.ch[e.c].st = "open" /\ ~s.ch[e.c].room
    [] e.k = "clientStalls"-> s.ch[e.c].st = "open" /\ s.ch[e.c].room
    [] e.k = "appFinishes" -> s.ch[e.c].st = "open" /\ s.ch[e.c].busy
    [] e.k = "tick"        -> TRUE
    [] OTHER -> FALSE

Step(s, e) == Settle(Event(s, e), 8)

(* ---- the property, on the state ---- *)
LimitHolds(s) == MapSize(s) <= s.limit + (s.nl - 1)
AcceptingResumes(s) == \A i \in 1..s.nl : s.backlog[i] # <<>> => MapSize(s) >= s.limit
(* idle = no request queued or executing; reaped within timeout + cleanup + one loop period (+1: strict <) *)
ReapedInTime(s, c) == LET x == s.ch[c] IN (x.st = "open" /\ ~x.busy) => s.now <= x.last + s.timeout + s.cleanup + 2
=============================================================================
