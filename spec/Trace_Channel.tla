--------------------------- MODULE Trace_Channel ---------------------------
(* Trace validation against the implementation-shaped model Channel.tla.       *)
(* A trace is the sequence of visible operations of one execution of the real  *)
(* server under the deterministic scheduler: ev[i] = [t, g, s] with t the       *)
(* logical thread ("io", "cl", "w0", ...), g = "<function>.<kind>.<object>"    *)
(* derived from the code location that performed the operation, and s the      *)
(* values of the shared channel attributes read from the real object after the *)
(* step.  Each event must be the next visible step of that thread in the model *)
(* (labels carry the same triple), with the same post-state.  Control labels   *)
(* that correspond to no visible operation are taken silently, only by the     *)
(* thread whose event is next, so the search is linear.                        *)
EXTENDS Channel, Json, IOUtils

CONSTANTS SigOf,        \* label -> "<function>.<kind>.<object>" for visible labels (generated from Channel.tla)
          Internal      \* labels without a visible operation
Traces == JsonDeserialize(IOEnv.WV_TRACES)
TraceCfgs == {Traces[i].cfg : i \in 1..Len(Traces)}      \* the scenarios of the recorded executions
VARIABLES tid, l, verdict
tvars == <<vars, tid, l, verdict>>

StepOf(t) == IF t = "io" THEN io ELSE IF t = "cl" THEN client ELSE worker(t)

TInit == Init /\ tid \in 1..Len(Traces) /\ cfg = Traces[tid].cfg /\ l = 1 /\ verdict = "run"

Post(e) ==   \* shared attributes after the step, as read from the real channel object
  e.s.known => /\ total' = e.s.total
               /\ Len(requests') = e.s.nreq
               /\ willClose' = e.s.will_close
               /\ cwf' = e.s.cwf
               /\ connected' = e.s.connected

TStep ==
  /\ verdict = "run"
  /\ l <= Len(Traces[tid].ev)
  /\ LET e == Traces[tid].ev[l] IN
       /\ StepOf(e.t)
       /\ IF pc[e.t] \in Internal
             THEN l' = l
             ELSE /\ SigOf[pc[e.t]] = e.g
                  /\ Post(e)
                  /\ l' = l + 1
  /\ UNCHANGED <<tid, verdict>>

TAccept == /\ verdict = "run" /\ l = Len(Traces[tid].ev) + 1
           /\ verdict' = "acc"
           /\ PrintT(<<"ACC", Traces[tid].id>>)
           /\ UNCHANGED <<vars, tid, l>>

TReject == /\ verdict = "run" /\ l <= Len(Traces[tid].ev)
           /\ ~ENABLED TStep
           /\ verdict' = "rej"
           /\ PrintT(<<"REJ", Traces[tid].id, l, pc[Traces[tid].ev[l].t], Traces[tid].ev[l].g>>)
           /\ UNCHANGED <<vars, tid, l>>

TNext == TStep \/ TAccept \/ TReject
TraceSpec == TInit /\ [][TNext]_tvars
=============================================================================
