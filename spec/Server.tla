------------------------------- MODULE Server -------------------------------
(* Model checking of ServerOps.tla: all histories of connect / send-partial /  *)
(* send-rest / client-reads / client-stalls / app-finishes / tick events.      *)
EXTENDS ServerOps
CONSTANTS NL, Limit, Timeout, Cleanup, MaxTicks
VARIABLES s, hist
vars == <<s, hist>>
Init == s = S0(NL, Limit, Timeout, Cleanup) /\ hist = 0
Events == {[k |-> "connect", c |-> c, l |-> l, dt |-> 0] : c \in Conns, l \in 1..NL}
          \cup {[k |-> k, c |-> c, l |-> 0, dt |-> 0] : k \in {"sendPartial", "sendRest", "clientReads", "clientStalls", "appFinishes"}, c \in Conns}
          \cup {[k |-> "tick", c |-> 1, l |-> 0, dt |-> 1]}
Next == \E e \in Events :
          /\ Enabled(s, e)
          /\ e.k = "connect" => e.c = 1 + Cardinality({c \in Conns : s.ch[c].st # "none"})    \* connections are numbered in order
          /\ e.k = "tick" => s.now < MaxTicks
          /\ s' = Step(s, e)
          /\ hist' = hist
Spec == Init /\ [][Next]_vars

LimitInv == LimitHolds(s)
ResumeInv == AcceptingResumes(s)
(* reaping, for connections whose socket is writable (a peer that stopped reading keeps its full send buffer: *)
(* the close is only carried out on a writable event - known finding, DESIGN.md F9)                        *)
ReapInv == \A c \in Conns : ~s.ch[c].room \/ ReapedInTime(s, c)
(* the unrestricted statement: expected to be violated by the stalled-peer-with-unsent-output history (known finding) *)
ReapAllInv == \A c \in Conns : ReapedInTime(s, c)
NeverReapBusy == [][\A c \in Conns : (s.ch[c].st = "open" /\ s.ch[c].busy /\ s'.ch[c].busy) => s'.ch[c].st = "open"]_vars
=============================================================================
