------------------------------ MODULE Buffer ------------------------------
(* Model checking of the buffer model of BufferOps.tla: all histories over   *)
(* the size alphabet; the implementation-shaped state b is compared with the *)
(* abstract queue q in every state.                                          *)
EXTENDS BufferOps

CONSTANTS Sizes, MaxBytes

VARIABLES b, q

vars == <<b, q>>

Init == b = New /\ q = [lo |-> 0, hi |-> 0]

DoAppend(n) == /\ q.hi + n <= MaxBytes
               /\ b' = BAppend(b, n)
               /\ q' = [q EXCEPT !.hi = @ + n]

DoPeek(n) == /\ b' = BGet(b, n, FALSE).b    \* may change the representation? no: only skip does
             /\ UNCHANGED q

DoGetSkip(n) == /\ LET r == BGet(b, n, TRUE)
                   IN /\ b' = r.b
                      /\ q' = [q EXCEPT !.lo = @ + (r.hi - r.lo)]

DoSkip(n, prune) == /\ n <= QLen(q)
                    /\ b' = BSkip(b, n, prune)
                    /\ q' = [q EXCEPT !.lo = @ + n]

DoGetFile == b' = BGetFile(b).b /\ UNCHANGED q

PeekSizes == Sizes \cup {-1}

Next == \/ \E n \in Sizes : DoAppend(n)
        \/ \E n \in PeekSizes : DoPeek(n)
        \/ \E n \in PeekSizes : DoGetSkip(n)
        \/ \E n \in Sizes, p \in BOOLEAN : DoSkip(n, p)
        \/ DoGetFile

Spec == Init /\ [][Next]_vars

Fidelity == ContentLo(b) = q.lo /\ ContentHi(b) = q.hi
LenExact == LenOf(b) = QLen(q)
PeeksFaithful == \A n \in PeekSizes : LET r == BGet(b, n, FALSE) IN PeekOK(q, n, r.lo, r.hi)
GetSkipExact == \A n \in PeekSizes : LET r == BGet(b, n, TRUE)
                                     IN /\ r.lo = q.lo \/ r.lo = r.hi
                                        /\ r.hi - r.lo = (IF n < 0 THEN QLen(q) ELSE Min2(n, QLen(q)))
FileViewFaithful == LET r == BGetFile(b) IN r.lo = q.lo /\ r.hi = q.hi
PosSane == b.rep # "none" => b.pos >= 0 /\ b.pos <= FLen(b) /\ b.remain = FLen(b) - b.pos
=============================================================================
