--------------------------- MODULE Trace_Framing ---------------------------
(* Judges what the real server did with a byte stream (C01, C02, C06).        *)
(* One trace per (stream, limits): cfg = [s, maxh, maxb]; one event per       *)
(* DISTINCT observation obtained over the explored segmentations of the       *)
(* stream (ideally exactly one): e.obs = sequence of                          *)
(*    [k |-> "app", method, target, body, nf]   application invoked           *)
(*    [k |-> "resp", code]                      server-generated error reply  *)
(* plus e.closed, e.raised, e.hang, e.after (reads consumed after a refusal), *)
(* e.nseg (how many segmentations produced it).                               *)
EXTENDS Framing, Json, IOUtils

CONSTANT Focus
Traces == JsonDeserialize(IOEnv.WV_TRACES)
VARIABLES tid, l, st, verdict

Cl(cond, name) == IF cond THEN {} ELSE {name}

(* walk the observation against the reference: returns the set of violated clauses *)
RECURSIVE Walk(_, _, _, _, _, _, _)
Walk(s, cfg, obs, i, p, mode, closed) ==
  (* mode: "open" | "openfree" (open, but the server may close: a request line without / with another HTTP version was served)
           | "mustclose" (a message with faulty/closing framing was processed) | "refused" *)
  IF i > Len(obs) THEN
     LET m == Msg(s, p, cfg) IN
     IF ~m.inc /\ (mode = "open" \/ (mode = "openfree" /\ ~closed))
        THEN {"P01_complete_message_neither_delivered_nor_refused"} ELSE {}
  ELSE LET ev == obs[i]
           m == Msg(s, p, cfg)
       IN IF mode \in {"mustclose", "refused"} THEN {"P01_nothing_after_refusal_or_mandatory_close"}
          ELSE IF ev.k = "app" THEN
                 Cl(~m.inc /\ m.deliverOK, "P01_delivered_message_is_what_rfc9112_extracts")
            \cup (IF ~m.inc /\ m.deliverOK THEN
                    Cl(ev.method = m.method /\ ev.target = m.target, "P01_method_and_target_as_sent")
               \cup Cl(ev.body = m.body, "P01_body_delimited_by_its_framing")
               \cup Walk(s, cfg, obs, i + 1, m.next, IF m.mustClose THEN "mustclose" ELSE IF m.verFree \/ mode = "openfree" THEN "openfree" ELSE "open", closed)
                  ELSE {})
          ELSE (* server-generated error response *)
                 Cl(m.refuseOK, "P01_only_faulty_messages_are_refused")
            \cup Cl(~m.refuseOK \/ ev.code \in m.codes, "P06_error_status_fits_the_fault")
            \cup Cl(ev.code \in {400, 413, 431, 501}, "P06_one_of_400_413_431_501")
            \cup Walk(s, cfg, obs, i + 1, p, "refused", closed)

Ended(s, cfg, obs) ==
  (* replay once more only to learn the final mode *)
  LET RECURSIVE Mode(_, _, _)
      Mode(i, p, mode) == IF i > Len(obs) \/ mode \in {"mustclose", "refused"} THEN mode
                          ELSE LET m == Msg(s, p, cfg) IN
                               IF obs[i].k = "app" THEN (IF ~m.inc /\ m.deliverOK THEN Mode(i + 1, m.next, IF m.mustClose THEN "mustclose" ELSE "open") ELSE "open")
                               ELSE "refused"
  IN Mode(1, 1, "open")

TFailAll(s, e) ==
  LET cfg == s.cfg
      mode == Ended(cfg.s, cfg, e.obs)
  IN Walk(cfg.s, cfg, e.obs, 1, 1, "open", e.closed)
     \cup Cl(mode = "open" \/ e.closed, "P01_connection_closed_after_refusal_or_faulty_framing")
     \cup Cl(~e.raised, "P06_parsing_never_raises")
     \cup Cl(~e.hang, "P06_parsing_never_hangs")
     \cup Cl(e.after <= 1, "P06_stops_consuming_within_one_read_after_refusal")
     \cup Cl(s.n = 0 \/ e.obs = s.first, "P02_outcome_independent_of_segmentation")
     \cup Cl(s.n = 0 \/ e.closed = s.firstClosed, "P02_outcome_independent_of_segmentation")

TFail(s, e) == TFailAll(s, e) \cap Focus
TInit(cfg) == [cfg |-> cfg, n |-> 0, first |-> <<>>, firstClosed |-> FALSE]
TDrift(s, e) == {}
TUpd(s, e) == IF s.n = 0 THEN [s EXCEPT !.n = 1, !.first = e.obs, !.firstClosed = e.closed] ELSE [s EXCEPT !.n = @ + 1]
TFinal(s) == {}
TB == INSTANCE TraceBatch WITH InitSt <- TInit, Fail <- TFail, Drift <- TDrift, Upd <- TUpd, Final <- TFinal
TraceSpec == TB!Spec
=============================================================================
