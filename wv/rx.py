"""Extraction of the automaton a compiled Python `re` pattern implements, in a
given match mode (match / fullmatch), over bytes.  Supports exactly the
constructs the framing-critical patterns of waitress use; anything else raises
Unsupported (a machinery failure, never a verdict).

`$` (non-MULTILINE) = end of input, or just before one final LF."""
import re

try:
    import re._parser as sre_parse  # py3.11+
    import re._constants as sre_c
except ImportError:  # pragma: no cover
    import sre_constants as sre_c
    import sre_parse


class Unsupported(Exception):
    pass


class NFA:
    def __init__(self):
        self.eps = {}     # state -> set(states)
        self.trans = {}   # state -> list of (byteset(frozenset), target)
        self.n = 0

    def new(self):
        self.n += 1
        return self.n - 1

    def add_eps(self, a, b):
        self.eps.setdefault(a, set()).add(b)

    def add(self, a, bs, b):
        self.trans.setdefault(a, []).append((frozenset(bs), b))


ALL = frozenset(range(256))
CATS = {
    sre_c.CATEGORY_DIGIT: frozenset(range(48, 58)),
    sre_c.CATEGORY_SPACE: frozenset([9, 10, 11, 12, 13, 32]),
    sre_c.CATEGORY_WORD: frozenset(list(range(48, 58)) + list(range(65, 91)) + list(range(97, 123)) + [95]),
}
CATS[sre_c.CATEGORY_NOT_DIGIT] = ALL - CATS[sre_c.CATEGORY_DIGIT]
CATS[sre_c.CATEGORY_NOT_SPACE] = ALL - CATS[sre_c.CATEGORY_SPACE]
CATS[sre_c.CATEGORY_NOT_WORD] = ALL - CATS[sre_c.CATEGORY_WORD]


def _charset(items, ignorecase=False):
    neg = False
    s = set()
    for op, av in items:
        if op == sre_c.NEGATE:
            neg = True
        elif op == sre_c.LITERAL:
            s.add(av)
        elif op == sre_c.RANGE:
            s.update(range(av[0], av[1] + 1))
        elif op == sre_c.CATEGORY:
            s |= CATS[av]
        else:
            raise Unsupported("set item %r" % (op,))
    s = {b for b in s if b < 256}
    return frozenset(ALL - s) if neg else frozenset(s)


def build(nfa, tree, start, flags):
    """Thompson construction; returns the end state of `tree` started at `start`.
    AT_END is returned as a marker edge to the special END states via nfa.at_end."""
    cur = start
    for op, av in tree:
        if op == sre_c.LITERAL:
            nx = nfa.new()
            nfa.add(cur, [av], nx)
            cur = nx
        elif op == sre_c.NOT_LITERAL:
            nx = nfa.new()
            nfa.add(cur, ALL - {av}, nx)
            cur = nx
        elif op == sre_c.ANY:
            nx = nfa.new()
            nfa.add(cur, ALL if flags & re.DOTALL else ALL - {10}, nx)
            cur = nx
        elif op == sre_c.IN:
            nx = nfa.new()
            nfa.add(cur, _charset(av), nx)
            cur = nx
        elif op == sre_c.SUBPATTERN:
            cur = build(nfa, av[3], cur, flags)
        elif op == sre_c.BRANCH:
            end = nfa.new()
            for alt in av[1]:
                s = nfa.new()
                nfa.add_eps(cur, s)
                e = build(nfa, alt, s, flags)
                nfa.add_eps(e, end)
            cur = end
        elif op in (sre_c.MAX_REPEAT, sre_c.MIN_REPEAT):
            lo, hi, sub = av
            for _ in range(lo):
                cur = build(nfa, sub, cur, flags)
            if hi == sre_c.MAXREPEAT:
                loop = nfa.new()
                nfa.add_eps(cur, loop)
                e = build(nfa, sub, loop, flags)
                nfa.add_eps(e, loop)
                cur = loop
            else:
                end = nfa.new()
                nfa.add_eps(cur, end)
                for _ in range(hi - lo):
                    cur = build(nfa, sub, cur, flags)
                    nfa.add_eps(cur, end)
                cur = end
        elif op == sre_c.AT:
            if av in (sre_c.AT_BEGINNING, sre_c.AT_BEGINNING_STRING):
                if cur != nfa.start_state:
                    raise Unsupported("^ not at the start")
            elif av == sre_c.AT_END:
                # end of input, or before a final LF
                nx = nfa.new()
                nfa.dollar.append((cur, nx))
                cur = nx
            elif av == sre_c.AT_END_STRING:
                nx = nfa.new()
                nfa.zed.append((cur, nx))
                cur = nx
            else:
                raise Unsupported("assertion %r" % (av,))
        elif op == sre_c.ASSERT_NOT and av[0] == -1 and len(av[1]) == 1 and av[1][0][0] in (sre_c.IN, sre_c.LITERAL):
            # negative look-behind of one byte class: an epsilon edge that may only be taken when the byte consumed
            # last is not in the class (or nothing was consumed yet)
            item = av[1][0]
            forbidden = _charset(item[1]) if item[0] == sre_c.IN else frozenset([item[1]])
            nx = nfa.new()
            nfa.cond.append((cur, nx, forbidden))
            cur = nx
        else:
            raise Unsupported("regex construct %r" % (op,))
    return cur


def dfa_of(pattern, mode):
    """pattern: compiled bytes pattern.  mode: 'match' | 'fullmatch'.
    Returns DFA dict(start, acc(set), delta{(q, byte)->q}, n) accepting exactly
    the byte strings s with pattern.<mode>(s) is not None."""
    if pattern.flags & (re.MULTILINE | re.IGNORECASE | re.VERBOSE):
        raise Unsupported("flags %r" % pattern.flags)
    src = pattern.pattern
    if isinstance(src, str):
        raise Unsupported("str pattern")
    tree = sre_parse.parse(src, pattern.flags)
    nfa = NFA()
    nfa.dollar, nfa.zed, nfa.cond = [], [], []
    s0 = nfa.new()
    nfa.start_state = s0
    end = build(nfa, list(tree), s0, pattern.flags)
    # `$`/`\\Z` must be the last thing in the pattern (all gates are like that)
    for (a, b) in nfa.dollar + nfa.zed:
        if b != end:
            raise Unsupported("end assertion not at the end of the pattern")
    ACC_END = nfa.new()   # accepting, input must be exhausted
    ACC_ANY = nfa.new()   # accepting, anything may follow (prefix match)
    nfa.add(ACC_ANY, ALL, ACC_ANY)
    if nfa.dollar or nfa.zed:
        for (a, b) in nfa.dollar:
            nfa.add_eps(a, ACC_END)
            if mode != "fullmatch":
                # `$` also matches just before one final LF (which match() then leaves unconsumed)
                nl = nfa.new()
                nfa.add(a, [10], nl)
                nfa.add_eps(nl, ACC_END)
        for (a, b) in nfa.zed:
            nfa.add_eps(a, ACC_END)
    else:
        nfa.add_eps(end, ACC_END if mode == "fullmatch" else ACC_ANY)
    accepting = {ACC_END, ACC_ANY}

    cond = {}
    for (a, b, forb) in nfa.cond:
        cond.setdefault(a, []).append((b, forb))

    def closure(S, last=None):
        st = list(S)
        seen = set(S)
        while st:
            x = st.pop()
            for y in nfa.eps.get(x, ()):
                if y not in seen:
                    seen.add(y)
                    st.append(y)
            for y, forb in cond.get(x, ()):
                if (last is None or last not in forb) and y not in seen:
                    seen.add(y)
                    st.append(y)
        return frozenset(seen)

    start = closure({s0})
    states = {start: 0}
    order = [start]
    delta = {}
    i = 0
    while i < len(order):
        S = order[i]
        i += 1
        for b in range(256):
            T = set()
            for x in S:
                for bs, y in nfa.trans.get(x, ()):
                    if b in bs:
                        T.add(y)
            T = closure(T, b)
            if T not in states:
                states[T] = len(order)
                order.append(T)
            delta[(states[S], b)] = states[T]
    acc = {states[S] for S in order if S & accepting}
    return {"start": 0, "acc": acc, "delta": delta, "n": len(order)}


def run(dfa, data):
    q = dfa["start"]
    for b in data:
        q = dfa["delta"][(q, b)]
    return q in dfa["acc"]


def classes(dfa):
    """Coarsest partition of 0..255 into classes with identical columns."""
    sig = {}
    for b in range(256):
        col = tuple(dfa["delta"][(q, b)] for q in range(dfa["n"]))
        sig.setdefault(col, []).append(b)
    cls = sorted(sig.values(), key=lambda v: v[0])
    cls_of = {}
    for i, v in enumerate(cls):
        for b in v:
            cls_of[b] = i
    return cls, cls_of


# ---------------------------------------------------------------------------
# small DFA algebra (complete DFAs over bytes; delta as dict (q,b)->q)
# ---------------------------------------------------------------------------
def make(n, start, acc, fn):
    return {"n": n, "start": start, "acc": set(acc), "delta": {(q, b): fn(q, b) for q in range(n) for b in range(256)}}


def product(a, b, accept):
    """reachable product; accept(qa_in_acc, qb_in_acc) -> bool"""
    idx = {(a["start"], b["start"]): 0}
    order = [(a["start"], b["start"])]
    delta = {}
    i = 0
    while i < len(order):
        qa, qb = order[i]
        for x in range(256):
            t = (a["delta"][(qa, x)], b["delta"][(qb, x)])
            if t not in idx:
                idx[t] = len(order)
                order.append(t)
            delta[(i, x)] = idx[t]
        i += 1
    acc = {i for i, (qa, qb) in enumerate(order) if accept(qa in a["acc"], qb in b["acc"])}
    return {"n": len(order), "start": 0, "acc": acc, "delta": delta}


def intersect(a, b):
    return product(a, b, lambda x, y: x and y)


def determinize(n, start_set, acc_set, trans, eps):
    """trans: dict state -> list of (frozenset(bytes), target); eps: dict state -> set"""
    def closure(S):
        st = list(S)
        seen = set(S)
        while st:
            x = st.pop()
            for y in eps.get(x, ()):
                if y not in seen:
                    seen.add(y)
                    st.append(y)
        return frozenset(seen)
    start = closure(start_set)
    states = {start: 0}
    order = [start]
    delta = {}
    i = 0
    while i < len(order):
        S = order[i]
        for b in range(256):
            T = set()
            for x in S:
                for bs, y in trans.get(x, ()):
                    if b in bs:
                        T.add(y)
            T = closure(T)
            if T not in states:
                states[T] = len(order)
                order.append(T)
            delta[(i, b)] = states[T]
        i += 1
    acc = {states[S] for S in order if S & acc_set}
    return {"n": len(order), "start": 0, "acc": acc, "delta": delta}


def surround(d, pre, post):
    """L = pre* . L(d) . post*   (pre/post: byte sets)"""
    trans, eps = {}, {}
    for (q, b), t in d["delta"].items():
        trans.setdefault(q, []).append((frozenset([b]), t))
    P = d["n"]      # prefix loop state
    T = d["n"] + 1  # tail loop state (accepting)
    trans.setdefault(P, []).append((frozenset(pre), P))
    eps.setdefault(P, set()).add(d["start"])
    trans.setdefault(T, []).append((frozenset(post), T))
    for q in d["acc"]:
        eps.setdefault(q, set()).add(T)
    return determinize(d["n"] + 2, {P}, {T}, trans, eps)


def minimize_tables(d):
    """-> (class_of[256], delta[n][nclasses]) for export"""
    cls, cof = classes(d)
    table = [[d["delta"][(q, c[0])] for c in cls] for q in range(d["n"])]
    return [cof[b] for b in range(256)], table


def tla_tables(prefix, d):
    cof, table = minimize_tables(d)
    seq = lambda xs: "<<" + ", ".join(str(x) for x in xs) + ">>"
    return ("%sStart == %d\n%sAcc == {%s}\n%sClassOf == %s\n%sDelta == <<%s>>\n" % (
        prefix, d["start"], prefix, ", ".join(str(x) for x in sorted(d["acc"])), prefix, seq(cof), prefix,
        ", ".join(seq(r) for r in table)))
