"""Independent client-side reader of an HTTP/1.x response stream, written from
RFC 9112 section 6 (message body length) - shares no code with waitress.

parse_stream(wire, methods, closed) -> (responses, leftover, error)
  methods: request methods in order (HEAD matters for body length).
  Each response: dict(status, reason, version, headers=[(name,value)], interim,
  framing in {none, length, chunked, close}, body, complete, raw_head_lines)."""
import re

_STATUS = re.compile(rb"^HTTP/(\d)\.(\d) (\d{3})(?: (.*))?$")
_TOKEN = re.compile(rb"^[!#$%&'*+\-.^_`|~0-9A-Za-z]+$")


class WireError(Exception):
    pass


def parse_head(buf, pos):
    """returns (resp, newpos) or (None, pos) if the head is incomplete."""
    end = buf.find(b"\r\n\r\n", pos)
    if end < 0:
        return None, pos
    head = buf[pos:end]
    lines = head.split(b"\r\n")
    m = _STATUS.match(lines[0])
    if not m:
        raise WireError("bad status line %r" % lines[0][:60])
    headers = []
    for ln in lines[1:]:
        if b"\r" in ln or b"\n" in ln:
            raise WireError("bare CR/LF inside header line %r" % ln[:60])
        if b":" not in ln:
            raise WireError("header line without colon %r" % ln[:60])
        n, v = ln.split(b":", 1)
        if not _TOKEN.match(n):
            raise WireError("header name is not a token %r" % n[:60])
        headers.append((n.decode("latin-1"), v.strip(b" \t").decode("latin-1")))
    # a bare LF or CR anywhere in the head block is a framing hazard
    for ln in lines:
        if b"\n" in ln or b"\r" in ln:
            raise WireError("bare CR/LF in head")
    r = {"version": "%s.%s" % (m.group(1).decode(), m.group(2).decode()), "status": int(m.group(3)),
         "reason": (m.group(4) or b"").decode("latin-1"), "headers": headers, "lines": len(lines)}
    return r, end + 4


def _get(headers, name):
    return [v for (n, v) in headers if n.lower() == name]


def parse_stream(wire, methods, closed):
    out = []
    pos = 0
    mi = 0
    err = None
    try:
        while pos < len(wire):
            r, p2 = parse_head(wire, pos)
            if r is None:
                break
            pos = p2
            st = r["status"]
            method = methods[mi] if mi < len(methods) else "GET"
            r["interim"] = 100 <= st < 200
            r["body"] = b""
            r["complete"] = True
            if r["interim"]:
                r["framing"] = "none"
                out.append(r)
                continue
            mi += 1
            te = [x.strip().lower() for v in _get(r["headers"], "transfer-encoding") for x in v.split(",") if x.strip()]
            cl = _get(r["headers"], "content-length")
            if method == "HEAD" or st in (204, 304):
                r["framing"] = "none"
            elif te:
                if te[-1] != "chunked":
                    r["framing"] = "close"
                else:
                    r["framing"] = "chunked"
            elif cl:
                if len(set(cl)) != 1 or not re.fullmatch(r"[0-9]+", cl[0]):
                    raise WireError("invalid Content-Length %r" % cl)
                r["framing"] = "length"
            else:
                r["framing"] = "close"
            if r["framing"] == "length":
                n = int(cl[0])
                body = wire[pos:pos + n]
                r["body"] = body
                r["declared"] = n
                pos += len(body)
                if len(body) < n:
                    r["complete"] = False
            elif r["framing"] == "chunked":
                body = b""
                done = False
                while True:
                    e = wire.find(b"\r\n", pos)
                    if e < 0:
                        break
                    line = wire[pos:e]
                    size = line.split(b";", 1)[0]
                    if not re.fullmatch(rb"[0-9A-Fa-f]+", size):
                        raise WireError("bad chunk-size line %r" % line[:40])
                    n = int(size, 16)
                    if n == 0:
                        # trailer section
                        t = wire.find(b"\r\n\r\n", e) if wire[e + 2:e + 4] != b"\r\n" else e
                        if wire[e + 2:e + 4] == b"\r\n":
                            pos = e + 4
                            done = True
                        elif t >= 0:
                            pos = t + 4
                            done = True
                        break
                    if len(wire) < e + 2 + n + 2:
                        body += wire[e + 2:e + 2 + n]
                        pos = len(wire)
                        break
                    if wire[e + 2 + n:e + 2 + n + 2] != b"\r\n":
                        raise WireError("chunk not terminated by CRLF")
                    body += wire[e + 2:e + 2 + n]
                    pos = e + 2 + n + 2
                r["body"] = body
                r["complete"] = done
            elif r["framing"] == "close":
                r["body"] = wire[pos:]
                pos = len(wire)
                r["complete"] = bool(closed)
            out.append(r)
            if not r["complete"]:
                break
    except WireError as e:
        err = str(e)
    return out, wire[pos:], err
