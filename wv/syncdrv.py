"""Synchronous driver: a real waitress server object (BaseWSGIServer, proxy
middleware if configured, HTTPChannel, parser, tasks) on fake sockets, with a
tiny single-threaded event loop (readable/writable -> wasyncore.read/write)
and tasks executed right after the read that queued them.  Used by the
sequential (input-/program-quantified) checks."""
from . import seams


class CollectDispatcher:
    def __init__(self):
        self.tasks = []

    def add_task(self, task):
        self.tasks.append(task)

    def set_thread_count(self, n):
        pass

    def shutdown(self, *a, **k):
        return True


class Conn:
    def __init__(self, srv, sock, chan):
        self.srv, self.sock, self.chan = srv, sock, chan
        self.exceptions = []
        self.unread = 0        # bytes offered while the channel was not readable
        self.reads_after_close_decision = 0

    @property
    def wire(self):
        return self.sock.wire

    @property
    def closed(self):
        return self.sock.closed

    def feed(self, data):
        """deliver one read's worth of bytes and run the loop to quiescence"""
        if data:
            self.sock.deliver(data)
        self.pump()

    def eof(self):
        self.sock.eof = True
        self.pump()

    def pump(self, limit=10000):
        from waitress import wasyncore
        srv = self.srv
        ch = self.chan
        n = 0
        while n < limit:
            n += 1
            progressed = False
            if not self.sock.closed and self.sock.fd in srv.map:
                try:
                    r = ch.readable() and self.sock.k_readable()
                    w = ch.writable() and self.sock.k_writable()
                except Exception as e:  # readable()/writable() must not raise
                    self.exceptions.append(("select-predicates", repr(e)))
                    break
                if r:
                    before = len(srv.errors)
                    wasyncore.read(ch)
                    progressed = True
                if w and not self.sock.closed and self.sock.fd in srv.map:
                    wasyncore.write(ch)
                    progressed = True
            while srv.disp.tasks:
                t = srv.disp.tasks.pop(0)
                try:
                    t.service()
                except BaseException as e:  # what handler_thread would catch and log
                    self.exceptions.append(("service", repr(e)))
                progressed = True
            if not progressed and getattr(self, "take", 0) and not self.sock.closed and self.sock.room == 0 and getattr(ch, "total_outbufs_len", 0) > 0:
                # a slow reader: takes a few more bytes each time the server has nothing else to do
                self.sock.room += self.take
                progressed = True
            if not progressed:
                break
        return n


class SyncServer:
    def __init__(self, app, _family=None, **adj):
        from waitress.adjustments import Adjustments
        from waitress.channel import HTTPChannel
        from waitress.server import TcpWSGIServer
        self.kernel = seams.Kernel()
        self.inst = seams.Installed(self.kernel, shim_threading=False)
        self.inst.__enter__()
        self.errors = []
        outer = self

        class Chan(HTTPChannel):
            def handle_error(self):
                import sys
                outer.errors.append(repr(sys.exc_info()[1]))
                HTTPChannel.handle_error(self)

        class Srv(TcpWSGIServer):
            channel_class = Chan

        self.Chan = Chan
        self.map = {}
        self.disp = CollectDispatcher()
        self.adj = Adjustments(**adj)
        self.listener = seams.FakeListener(self.kernel, "L", family=_family) if _family is not None else seams.FakeListener(self.kernel, "L")
        import socket as _s
        extra = {"sockinfo": (_family, _s.SOCK_STREAM, 0, ("::1", 8080, 0, 0))} if _family == _s.AF_INET6 else {}
        self.server = Srv(app, map=self.map, _start=True, _sock=self.listener, dispatcher=self.disp, adj=self.adj, **extra)
        self.n = 0

    def connect(self, peer=("127.0.0.1", 40001), sndbuf=65536, room=None, via_accept=False):
        self.n += 1
        sk = seams.FakeSocket(self.kernel, "c%d" % self.n, sndbuf=sndbuf)
        sk.room = room
        if via_accept:
            sk.getpeername = lambda: peer
            self.listener.backlog.append(sk)
            self.server.handle_accept()
            ch = self.server.active_channels.get(sk.fd)
        else:
            ch = self.Chan(self.server, sk, peer, self.adj, map=self.map)
        return Conn(self, sk, ch)

    def close(self):
        try:
            w = getattr(self.server.trigger, "socket", None)
            if w is not None and hasattr(w, "fd"):
                w.fd = -1
        except Exception:
            pass
        self.inst.__exit__()
