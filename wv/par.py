"""Process-parallel map (fork) for scenario exploration / replay."""
import multiprocessing as mp
import os


def pmap(fn, jobs, procs=None, chunksize=1):
    jobs = list(jobs)
    if not jobs:
        return []
    procs = procs or min(len(jobs), max(1, (os.cpu_count() or 4) - 1))
    if procs <= 1 or os.environ.get("WV_SERIAL"):
        return [fn(j) for j in jobs]
    ctx = mp.get_context("fork")
    with ctx.Pool(procs) as pool:
        return pool.map(fn, jobs, chunksize)
