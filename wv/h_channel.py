"""Harness: a real waitress server (BaseWSGIServer + HTTPChannel + trigger +
ThreadedTaskDispatcher + wasyncore loop) on the simulated kernel, all threads
under the deterministic scheduler.  Records the observable events the property
monitors of spec/Pipeline.tla are defined on."""
import errno

from . import dsched, explore, httpclient
from .seams import FakeListener, FakeSocket, Installed, Kernel

RACY = ("requests", "total_outbufs_len", "will_close", "close_when_flushed", "connected",
        "sent_continue", "request", "current_outbuf_count", "last_activity", "outbufs")


def _mkprop(name, base):
    key = "_wv_" + name

    def g(self):
        S = dsched.S
        if S is not None and S.cur is not None:
            S.vo("rd", name)
        d = self.__dict__
        return d[key] if key in d else getattr(base, name)

    def s(self, v):
        S = dsched.S
        if S is not None and S.cur is not None:
            S.vo("wr", name)
        self.__dict__[key] = v
        ctx = getattr(self, "_wv_ctx", None)
        if ctx is not None:
            ctx.on_write(self, name, v)
    return property(g, s)


class LogMap(dict):
    ctx = None

    def __delitem__(self, k):
        dict.__delitem__(self, k)
        if self.ctx is not None:
            self.ctx.on_mapdel(k)

    def clear(self):
        for k in list(self):
            self.__delitem__(k)


# ---------------------------------------------------------------------------
# request / response scripts
# ---------------------------------------------------------------------------
def request_bytes(r):
    """(head bytes, body bytes) of request r; r["lead"] = n puts n stray CRLFs in front of the request line (what
    a sloppy client leaves behind a body: the server reads them as an empty message and drops it)"""
    h, b = _request_bytes(r)
    return b"\r\n" * r.get("lead", 0) + h, b


def _request_bytes(r):
    """r: dict(k, kind, ...) -> (head bytes, body bytes).  kinds:
    plain | body | chunked | expect | expect_nobody | close | http10 | http10_ka | head |
    bad (malformed -> 400) | garbage | partial (head never finished)"""
    k = r["k"]
    kind = r.get("kind", "plain")
    path = "/r%d" % k
    extra = "".join("%s: %s\r\n" % (n, v) for n, v in r.get("headers", []))
    body = (b"%c" % (96 + k)) * r.get("blen", 3)
    if kind == "plain":
        return ("GET %s HTTP/1.1\r\nHost: t\r\nX-K: %d\r\n%s\r\n" % (path, k, extra)).encode(), b""
    if kind == "head":
        return ("HEAD %s HTTP/1.1\r\nHost: t\r\nX-K: %d\r\n%s\r\n" % (path, k, extra)).encode(), b""
    if kind == "body":
        return ("POST %s HTTP/1.1\r\nHost: t\r\nX-K: %d\r\nContent-Length: %d\r\n%s\r\n" % (path, k, len(body), extra)).encode(), body
    if kind == "chunked":
        cb = b"%x\r\n%s\r\n0\r\n\r\n" % (len(body), body)
        return ("POST %s HTTP/1.1\r\nHost: t\r\nX-K: %d\r\nTransfer-Encoding: chunked\r\n%s\r\n" % (path, k, extra)).encode(), cb
    if kind in ("te_cl", "te_cl_empty"):
        # Transfer-Encoding together with a Content-Length field (RFC 9112 6.1: the connection must be closed after
        # the response); the field value is empty in the second kind
        cb = b"%x\r\n%s\r\n0\r\n\r\n" % (len(body), body)
        return ("POST %s HTTP/1.1\r\nHost: t\r\nX-K: %d\r\nContent-Length:%s\r\nTransfer-Encoding: chunked\r\n%s\r\n" % (
            path, k, " %d" % len(cb) if kind == "te_cl" else "", extra)).encode(), cb
    if kind == "expect":
        # (the expectation is a case-insensitive token: r["expect_value"] spells it differently)
        return ("POST %s HTTP/1.1\r\nHost: t\r\nX-K: %d\r\nExpect: %s\r\nContent-Length: %d\r\n%s\r\n" % (path, k, r.get("expect_value", "100-continue"), len(body), extra)).encode(), body
    if kind == "expect_chunked":
        cb = b"%x\r\n%s\r\n0\r\n\r\n" % (len(body), body)
        return ("POST %s HTTP/1.1\r\nHost: t\r\nX-K: %d\r\nExpect: 100-continue\r\nTransfer-Encoding: chunked\r\n%s\r\n" % (path, k, extra)).encode(), cb
    if kind == "expect_nobody":
        return ("GET %s HTTP/1.1\r\nHost: t\r\nX-K: %d\r\nExpect: 100-continue\r\n%s\r\n" % (path, k, extra)).encode(), b""
    if kind == "expect10":
        return ("POST %s HTTP/1.0\r\nHost: t\r\nX-K: %d\r\nConnection: keep-alive\r\nExpect: 100-continue\r\nContent-Length: %d\r\n%s\r\n" % (path, k, len(body), extra)).encode(), body
    if kind == "close":
        return ("GET %s HTTP/1.1\r\nHost: t\r\nX-K: %d\r\nConnection: close\r\n%s\r\n" % (path, k, extra)).encode(), b""
    if kind == "http10":
        return ("GET %s HTTP/1.0\r\nHost: t\r\nX-K: %d\r\n%s\r\n" % (path, k, extra)).encode(), b""
    if kind == "te10":
        # HTTP/1.0 keep-alive with a Transfer-Encoding header (no body follows): framing after which the connection
        # must be closed
        return ("GET %s HTTP/1.0\r\nHost: t\r\nX-K: %d\r\nConnection: keep-alive\r\nTransfer-Encoding: chunked\r\n%s\r\n" % (path, k, extra)).encode(), b""
    if kind == "http10_ka":
        return ("GET %s HTTP/1.0\r\nHost: t\r\nX-K: %d\r\nConnection: keep-alive\r\n%s\r\n" % (path, k, extra)).encode(), b""
    if kind == "bad":
        return ("GET %s HTTP/1.1\r\nHost: t\r\nX-K: %d\r\nBad Header : x\r\n\r\n" % (path, k)).encode(), b""
    if kind == "toolarge":
        return ("POST %s HTTP/1.1\r\nHost: t\r\nX-K: %d\r\nContent-Length: 99999999999\r\n\r\n" % (path, k)).encode(), b""
    if kind == "garbage":
        return b"\x00\x01garbage\r\n\r\n", b""
    if kind == "partial":
        return ("GET %s HTTP/1.1\r\nHost: t\r\nX-K: %d\r\nX-Unfinished: " % (path, k)).encode(), b""
    raise ValueError(kind)


METHOD = {"plain": "GET", "head": "HEAD", "body": "POST", "chunked": "POST", "expect": "POST",
          "expect_nobody": "GET", "expect10": "POST", "close": "GET", "http10": "GET", "http10_ka": "GET",
          "bad": "GET", "toolarge": "POST", "garbage": "GET", "partial": "GET", "te10": "GET", "te_cl": "POST", "te_cl_empty": "POST", "expect_chunked": "POST"}


class AppIter:
    """Iterable whose every step is a scheduler VO; counts close()."""

    def __init__(self, ctx, conn, k, chunks, raise_at=None):
        self.ctx, self.conn, self.k = ctx, conn, k
        self.chunks = list(chunks)
        self.i = 0
        self.raise_at = raise_at
        self.closed = 0

    def __iter__(self):
        return self

    def __next__(self):
        S = dsched.S
        cb = getattr(self.ctx, "on_app_next", None)
        if cb is not None:
            cb()
        if S is not None and S.cur is not None:
            S.vo("app", "next")
        if self.raise_at is not None and self.i == self.raise_at:
            raise (getattr(self, "exc_class", None) or self.ctx.exc_class)("app failure in iteration")
        if self.i >= len(self.chunks):
            raise StopIteration
        c = self.chunks[self.i]
        self.i += 1
        if c == "peer":
            # the application waits until a request of another connection is being executed (two long-polling
            # requests that need each other: both must get a worker)
            if S is not None and S.cur is not None:
                S.vo("app", "peer", enabled=lambda: any(e["k"] == "app_start" and e.get("c") != self.conn for e in self.ctx.events))
            return b""
        if c == "sync":
            # the application pauses in mid-stream (long poll / event stream): it goes on only once the server
            # has pushed out everything it is obliged to push (less than send_bytes may be held back by design)
            ch = self.ctx.chans.get(self.conn)
            if S is not None and S.cur is not None and ch is not None:
                sb = self.ctx.adj.send_bytes
                S.vo("app", "sync", enabled=lambda: ch.__dict__.get("_wv_total_outbufs_len", 0) < max(sb, 1) or not ch.__dict__.get("_wv_connected", True))
            return b""
        return c

    def close(self):
        self.closed += 1
        self.ctx.ev({"k": "app_end", "c": self.conn, "r": self.k})


class AppFile:
    """what an application hands to wsgi.file_wrapper: a seekable file whose close() is observed"""

    def __init__(self, ctx, conn, k, data):
        import io
        self.ctx, self.conn, self.k = ctx, conn, k
        self.b = io.BytesIO(data)
        self.closed = 0

    def read(self, n=-1):
        return self.b.read(n)

    def seek(self, *a):
        return self.b.seek(*a)

    def tell(self):
        return self.b.tell()

    def close(self):
        self.closed += 1
        self.ctx.ev({"k": "file_closed", "c": self.conn, "r": self.k})


class Ctx:
    exc_class = ValueError

    def __init__(self, S, scn):
        from waitress import wasyncore
        from waitress.adjustments import Adjustments
        from waitress.channel import HTTPChannel
        from waitress.server import TcpWSGIServer
        from waitress.task import ThreadedTaskDispatcher
        self.S = S
        self.scn = scn
        if getattr(S, "on_step", None) is None:
            # (observed for the classification of findings only) the moment handle_close has left its critical section:
            # from here on no worker can see the channel connected
            def _on_step(name, label, self=self):
                if label and tuple(label[:3]) == ("rel", "outbuf_lock", "handle_close"):
                    self.ev({"k": "closing_released", "c": "c1" if len(self.chans) == 1 else "?"})
            S.on_step = _on_step
        self.events = []
        self.kernel = Kernel()
        self.kernel.on_fault = self.on_fault
        self.inst = Installed(self.kernel, timeout_mode=scn.get("timeout_mode", "never"))
        self.inst.__enter__()
        try:
            ctx = self

            class TDisp(ThreadedTaskDispatcher):
                def start_new_thread(self, target, thread_no):
                    dsched.S.spawn("w%d" % thread_no, lambda: target(thread_no), daemonic=True)

            class Chan(HTTPChannel):
                _wv_ctx = None

                def __init__(self, server, sock, addr, adj, map=None):
                    self.__dict__["_wv_ctx"] = None
                    self.__dict__["_wv_conn"] = getattr(sock, "name", "?")
                    ctx.chans[getattr(sock, "name", "?")] = self
                    HTTPChannel.__init__(self, server, sock, addr, adj, map=map)
                    self.__dict__["_wv_ctx"] = ctx
                    self.outbuf_lock.name = "outbuf_lock"
                    self.outbuf_lock.lock.name = "outbuf_lock"
                    self.requests_lock.name = "requests_lock"

                def write_soon(self, data):
                    ctx.on_write_soon(self, data)
                    return HTTPChannel.write_soon(self, data)

                def handle_close(self):
                    # the teardown begins (observed for the classification of findings only)
                    ctx.ev({"k": "closing", "c": self.__dict__.get("_wv_conn")})
                    return HTTPChannel.handle_close(self)

            for n in scn.get("racy", RACY):
                setattr(Chan, n, _mkprop(n, HTTPChannel))

            class Srv(TcpWSGIServer):
                channel_class = Chan

            self.chans = {}
            self.map = LogMap()
            self.map.ctx = self
            adjkw = dict(scn.get("adj", {}))
            self.adj = Adjustments(**adjkw)
            self.disp = TDisp()
            self.listener = FakeListener(self.kernel, "L")
            self.srv = Srv(self.app, map=self.map, _start=True, _sock=self.listener,
                           dispatcher=self.disp, adj=self.adj)
            self.disp.set_thread_count(scn.get("workers", 1))
            self.listener_fd = self.listener.fd
            self.trigger_fd = self.srv.trigger._fileno
            self.socks = {}
            self.maxpending = {}
            self.maxwrite = {}
            self.flagged = {}
            self.started = {}
            self.client_done = {}
            self.fd_conn = {}
            for ci, c in enumerate(scn["conns"]):
                name = "c%d" % (ci + 1)
                sk = FakeSocket(self.kernel, name, sndbuf=c.get("sndbuf", 65536))
                sk.room = c.get("room", None)
                for op, errs in c.get("faults", {}).items():
                    for e_ in errs:
                        sk.fault(op, e_)
                self.socks[name] = sk
                self.fd_conn[sk.fd] = name
                self.client_done[name] = False
                S.spawn(name, (lambda n=name, cc=c: self.client_thread(n, cc)))
            for e_ in scn.get("accept_faults", []):
                self.listener.fault("accept", e_)
            use_poll = bool(scn.get("use_poll", False))
            S.spawn("io", lambda: wasyncore.loop(timeout=scn.get("loop_timeout", 1), use_poll=use_poll, map=self.map))
        except BaseException:
            self.inst.__exit__()
            raise

    # ---- event plumbing -------------------------------------------------
    def ev(self, e):
        e["by"] = self.S.cur or "main"
        self.events.append(e)

    def on_write(self, chan, name, v):
        conn = chan.__dict__.get("_wv_conn")
        if name == "total_outbufs_len":
            if v > self.maxpending.get(conn, 0):
                self.maxpending[conn] = v
        elif name in ("will_close", "close_when_flushed") and v:
            self.ev({"k": "flag", "c": conn, "attr": name})

    def on_fault(self, name, op, e):
        # "hard": an error that send() reports to its caller (the code reacts by deciding to close);
        # disconnect errnos are mapped to "nothing sent" by HTTPChannel.send and decide nothing by themselves
        from waitress.wasyncore import _DISCONNECTED
        sk_ = self.socks.get(name)
        self.ev({"k": "fault", "c": name, "op": op, "errno": errno.errorcode.get(e, str(e)), "wire": len(sk_.wire) if sk_ is not None else 0,
                 "hard": bool(op == "send" and e not in _DISCONNECTED and e != errno.EWOULDBLOCK)})

    def on_write_soon(self, chan, data):
        conn = chan.__dict__.get("_wv_conn")
        try:
            n = len(data)
        except Exception:
            n = 0
        if n > self.maxwrite.get(conn, 0):
            self.maxwrite[conn] = n

    def on_mapdel(self, fd):
        self.ev({"k": "torn", "c": self.fd_conn.get(fd, "L" if fd == self.listener_fd else ("T" if fd == self.trigger_fd else "?")), "what": "map.del"})

    # ---- application ------------------------------------------------------
    def app(self, environ, start_response):
        path = environ.get("PATH_INFO", "")
        try:
            k = int(path[2:])
        except ValueError:
            k = 0
        conn = None
        for n, ch in self.chans.items():
            if environ.get("REMOTE_PORT") == str(self.socks[n].getpeername()[1]):
                conn = n
        spec = self.scn.get("apps", {}).get(str(k), {})
        hdrs = sorted((kk, vv) for kk, vv in environ.items() if kk.startswith("HTTP_X_"))
        body_in = environ["wsgi.input"].read()
        self.ev({"k": "app_start", "c": conn, "r": k, "xk": environ.get("HTTP_X_K", ""),
                 "nx": len(hdrs), "blen": len(body_in), "expect": environ.get("HTTP_EXPECT", "")})
        S = dsched.S
        if spec.get("raise") == "call":
            self.ev({"k": "app_end", "c": conn, "r": k})
            raise self.exc_class("app failure at call")
        chunks = [n if n in ("sync", "peer") else (b"%c" % (64 + max(k, 1))) * n for n in spec.get("chunks", [3])]
        headers = [("X-Req", str(k)), ("Content-Type", "text/plain")]
        cl = spec.get("cl", "exact")
        total = sum(len(c) for c in chunks if c not in ("sync", "peer"))
        if cl == "exact":
            headers.append(("Content-Length", str(total)))
        elif cl == "larger":
            headers.append(("Content-Length", str(total + 2)))
        elif cl == "smaller":
            headers.append(("Content-Length", str(max(total - 1, 0))))
        if spec.get("conn_close"):
            pass
        write = start_response(spec.get("status", "200 OK"), headers)
        if spec.get("filewrapper"):
            # the application's part ends with the call; the file is the server's to close
            f = AppFile(self, conn, k, b"".join(c for c in chunks if c not in ("sync", "peer")))
            self.ev({"k": "file_open", "c": conn, "r": k})
            self.ev({"k": "app_end", "c": conn, "r": k})
            return environ["wsgi.file_wrapper"](f, 8192)
        if spec.get("write"):
            try:
                for c in chunks:
                    if c in ("sync", "peer"):
                        continue
                    if S is not None and S.cur is not None:
                        S.vo("app", "write")
                    write(c)
            except BaseException:
                # the call ends here (ClientDisconnected from write()): there is no iterable the server could close
                self.ev({"k": "app_end", "c": conn, "r": k})
                raise
            chunks = []
        it = AppIter(self, conn, k, chunks, spec.get("raise_at"))
        if spec.get("exc") == "OSError":
            it.exc_class = OSError
        return it

    # ---- client -----------------------------------------------------------
    def client_thread(self, name, c):
        S = self.S
        sk = self.socks[name]
        for act in c["client"]:
            op = act[0]
            if op == "connect":
                S.vo("client", "connect")
                self.listener.backlog.append(sk)
            elif op == "send":
                S.vo("client", "send")
                sk.deliver(bytes.fromhex(act[1]) if isinstance(act[1], str) else act[1])
            elif op == "await100":
                n = act[1]
                S.vo("client", "await100", enabled=lambda n=n: sk.wire.count(b"100 Continue\r\n\r\n") >= n or sk.closed)
            elif op == "await":
                # wait until n final responses are complete on the wire (or closed)
                n = act[1]
                S.vo("client", "await", enabled=lambda n=n: self.nfinal(name) >= n or sk.closed)
            elif op == "read":
                S.vo("client", "read")
                if sk.room is not None:
                    sk.room += act[1]
            elif op == "readall":
                S.vo("client", "read")
                sk.room = None
            elif op == "readall_after_block":
                # a slow reader: starts draining only after the server found the socket full
                S.vo("client", "read", enabled=lambda: sk.blocked >= act[1] or sk.closed)
                sk.room = None
            elif op == "read_after_block":
                # a slow reader that takes act[2] bytes once the server has found the socket full act[1] times
                S.vo("client", "read", enabled=lambda: sk.blocked >= act[1] or sk.closed)
                if sk.room is not None:
                    sk.room += act[2]
            elif op == "oob":
                # one byte of urgent data: the descriptor shows up in select's exceptional set / as POLLPRI
                S.vo("client", "oob")
                sk.oob = True
            elif op == "eof":
                S.vo("client", "eof")
                sk.eof = True
            elif op == "close":
                S.vo("client", "close")
                sk.eof = True
                sk.peer_closed = True
            elif op == "reset":
                S.vo("client", "reset")
                sk.fault("recv", errno.ECONNRESET)
                sk.fault("send", errno.ECONNRESET)
                sk.peer_closed = True
            elif op == "fault":
                S.vo("client", "fault")
                sk.fault(act[1], act[2])
        self.client_done[name] = True

    def methods(self, name):
        ci = int(name[1:]) - 1
        return [METHOD[r.get("kind", "plain")] for r in self.scn["conns"][ci].get("requests", [])]

    def nfinal(self, name):
        sk = self.socks[name]
        try:
            rs, rest, err = httpclient.parse_stream(sk.wire, self.methods(name), sk.closed)
        except Exception:
            return 0
        return sum(1 for r in rs if not r["interim"] and r["complete"])

    # ---- end of run -----------------------------------------------------
    def finish(self, status):
        S = self.S
        for n in S.order:
            t = S.threads[n]
            if t.exc is not None:
                self.events.append({"k": "died", "by": n, "exc": repr(t.exc)[:160]})
        for (who, what, fd) in self.kernel.log:
            if what == "close":
                self.events.append({"k": "torn", "by": who, "c": self.fd_conn.get(fd, "L" if fd == self.listener_fd else "T" if fd == self.trigger_fd else "p"), "what": "fd.close"})
        conns = []
        d = self.disp
        qlen = len(d.queue)
        for name, sk in sorted(self.socks.items()):
            ch = self.chans.get(name)
            rs, rest, err = httpclient.parse_stream(sk.wire, self.methods(name), sk.closed)
            resp = []
            # a body delimited by the end of the connection is complete only if the server ended the connection of its
            # own accord: after a reset / close by the client or a send error it is legitimately cut short
            clean = sk.closed and not sk.peer_closed and not any(e["k"] == "fault" and e.get("c") == name for e in self.events)
            for r in rs:
                if r["framing"] == "close" and not clean:
                    r["complete"] = False
                xr = [v for (hn, v) in r["headers"] if hn.lower() == "x-req"]
                conn_h = [v.lower() for (hn, v) in r["headers"] if hn.lower() == "connection"]
                resp.append({"status": r["status"], "interim": r["interim"], "r": int(xr[0]) if xr and xr[0].isdigit() else 0,
                             "complete": r["complete"], "close": "close" in conn_h, "framing": r["framing"],
                             "blen": len(r["body"]), "bodyc": r["body"][:1].decode("latin-1") if r["body"] else ""})
            dd = ch.__dict__ if ch is not None else {}
            waiting = 0
            if ch is not None and "_wv_requests" not in dd:
                ch = None  # construction failed: the connection never became a channel
            if ch is not None:
                # producers parked on this channel's output condition: still queued, or notified but unable to get the
                # lock back (both are "waiting" as far as the application is concerned)
                waiting = len(ch.outbuf_lock.waiters)
                for tn, th in self.S.threads.items():
                    pend = getattr(th, "pending", None)
                    if (not getattr(th, "done", False) and pend and pend[0] == "wait" and pend[1] == "outbuf_lock" and tn not in ch.outbuf_lock.waiters
                            and getattr(ch.outbuf_lock.lock, "owner", None) not in (None, tn)):
                        waiting += 1
            cut_head = bool(rest) and any(rest[:9] == pre[:len(rest[:9])] for pre in (b"HTTP/1.1 ", b"HTTP/1.0 ")) and b"\r\n\r\n" not in rest
            conns.append({"c": name, "accepted": ch is not None, "resp": resp, "garbage": 0 if cut_head else len(rest),
                          "cut_head": cut_head, "wire_error": err or "",
                          "closed": sk.closed, "nclose": len(sk.close_calls), "in_map": sk.fd in self.map,
                          "total": dd.get("_wv_total_outbufs_len", 0), "nreq": len(dd.get("_wv_requests", ()) or ()),
                          "will_close": bool(dd.get("_wv_will_close", False)), "cwf": bool(dd.get("_wv_close_when_flushed", False)),
                          "connected": bool(dd.get("_wv_connected", False)), "waiting": waiting,
                          "client_done": self.client_done[name], "maxpending": self.maxpending.get(name, 0),
                          "maxwrite": self.maxwrite.get(name, 0), "inbox": sum(len(x) for x in sk.inbox),
                          "peer_closed": sk.peer_closed or sk.eof,
                          "wire_len": len(sk.wire),
                          "bufs_closed": all(_buf_closed(b) for b in (dd.get("_wv_outbufs") or [])) if sk.closed else True})
        io = S.threads.get("io")
        workers_alive = sum(1 for n in S.order if n.startswith("w") and not S.threads[n].done)
        self.events.append({"k": "end", "by": "main", "status": status, "conns": conns, "qlen": qlen,
                            "listener_open": (not self.listener.closed) and self.listener_fd in self.map,
                            "trigger_open": self.trigger_fd in self.map,
                            "io_alive": bool(io and not io.done), "workers_alive": workers_alive,
                            "workers": self.scn.get("workers", 1), "steps": S.nsteps})
        return list(self.events)  # threads unwinding after this point must not add events

    def cleanup(self):
        try:
            w = getattr(self.srv.trigger, "socket", None)
            if w is not None and hasattr(w, "fd"):
                w.fd = -1  # simulated descriptor: nothing for file_wrapper.__del__ to close
        except Exception:
            pass
        self.inst.__exit__()


def _buf_closed(b):
    try:
        inner = getattr(b, "buf", None)
        f = getattr(inner if inner is not None else b, "file", None)
        if f is None:
            return True
        return bool(getattr(f, "closed", True))
    except Exception:
        return True


def builder(scn):
    def build(S):
        return Ctx(S, scn)
    return build


def explore_scenario(args):
    scn, seed, n_pct, dfs_limit, bound = args
    from .core import repo_on_path
    repo_on_path()
    import time as _t
    t0 = _t.time()
    out = []
    build = builder(scn)

    def keep(res, choices):
        out.append((choices, res))
    n, exhausted = (0, True)
    budget = scn.get("budget", 6000)
    if dfs_limit:
        # schedules with at most one pre-emption, systematically: half of the budget from the start of the execution
        # (depth-first, also the free choices at blocking points), half spread evenly over the whole execution
        n, exhausted = explore.dfs(build, bound=1, limit=dfs_limit // 2, on_result=keep, budget=budget)
        if not exhausted:
            n += explore.spread(build, limit=dfs_limit - dfs_limit // 2, budget=budget, on_result=keep, seed=seed)
    base_len = max([len(c) for c, _ in out] or [300])
    for i in range(n_pct):
        if i % 3 == 2:
            pol = explore.PCT(seed * 100003 + i, d=1 + i % 4, horizon=base_len)
        else:
            pol = explore.Preempt(seed * 100003 + i, k=bound + (i % 2), horizon=base_len)
        res, steps = explore.run_once(build, pol, budget=budget)
        out.append(([c for (_, c) in steps], res))
    seen, uniq = set(), []
    for ch, evs in out:
        key = repr([e for e in evs if e["k"] != "end"]) + repr({k: v for k, v in evs[-1].items() if k != "steps"})
        if key not in seen:
            seen.add(key)
            uniq.append((ch, evs))
    import time as _t
    return {"scn": scn, "runs": len(out), "dfs": n, "dfs_exhausted": exhausted, "traces": uniq,
            "wall": _t.time() - t0, "maxsteps": max([len(c) for c, _ in out] or [0])}


def explore_around(args):
    """Single pre-emptions in a window of one recorded schedule: for every step i in [lo, hi) of the schedule `choices`
    and every other thread enabled there, replay choices[:i] + [that thread] and let the default policy continue.
    Used to search next to a point where an execution left the model (drift-guided search)."""
    scn, choices, lo, hi, limit = args
    from .core import repo_on_path
    repo_on_path()
    import time as _t
    t0 = _t.time()
    build = builder(scn)
    budget = scn.get("budget", 6000)
    base, steps = explore.run_once(build, explore.Replay(choices), budget=budget)
    out = [([c for (_, c) in steps], base)]
    cands = []
    for i in range(max(lo, 0), min(hi, len(steps))):
        en, c = steps[i]
        for alt in en:
            if alt != c:
                cands.append((i, alt))
    if len(cands) > limit:
        stride = len(cands) / float(limit)
        cands = [cands[int(k * stride)] for k in range(limit)]
    ch = [c for (_, c) in steps]
    for i, alt in cands:
        res, st = explore.run_once(build, explore.Replay(ch[:i] + [alt]), budget=budget)
        out.append(([c for (_, c) in st], res))
    seen, uniq = set(), []
    for chs, evs in out:
        key = repr([e for e in evs if e["k"] != "end"]) + repr({k: v for k, v in evs[-1].items() if k != "steps"})
        if key not in seen:
            seen.add(key)
            uniq.append((chs, evs))
    return {"scn": scn, "runs": len(out), "dfs": 0, "dfs_exhausted": False, "traces": uniq, "wall": _t.time() - t0, "maxsteps": len(steps)}
