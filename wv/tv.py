"""Batch trace validation: hand a list of recorded traces to TLC, get back the
per-trace verdicts computed by the TLA+ specification (spec/TraceBatch.tla)."""
import json
import os
import shutil

from . import tlc
from .core import MachineryFailure


CHUNK = 20000


def validate(chk, module, traces, constants="", name=None, workers=8, timeout=1800, spec="TraceSpec", java_opts=()):
    """traces: list of {"id": str|int, "cfg": {...}, "ev": [events]}.
    Returns (rejections, drifts): dicts id -> (position, [clauses]).
    Raises MachineryFailure if TLC did not demonstrably process every trace."""
    if not traces:
        return {}, {}
    if len(traces) > CHUNK:
        # TLC enumerates the traces as initial states, sequentially: large batches are cut into chunks that are
        # validated by parallel TLC processes (same verdicts; one tlc_run entry per chunk)
        import concurrent.futures as cf
        parts = [traces[i:i + CHUNK] for i in range(0, len(traces), CHUNK)]
        w = max(2, min(workers, 16 // min(len(parts), 4)))
        rej, drift = {}, {}
        with cf.ThreadPoolExecutor(4) as ex:
            futs = [ex.submit(validate, chk, module, part, constants, "%s [part %d/%d]" % (name or ("TV:" + module), k + 1, len(parts)), w, timeout, spec, java_opts)
                    for k, part in enumerate(parts)]
            for f in futs:
                r, d = f.result()
                rej.update(r)
                drift.update(d)
        return rej, drift
    wd = tlc.scratch("tv")
    try:
        path = os.path.join(wd, "traces.json")
        with open(path, "w") as f:
            json.dump(traces, f, separators=(",", ":"))
        cfg = "SPECIFICATION %s\n%s\nCHECK_DEADLOCK FALSE\n" % (spec, constants)
        res = tlc.run(module, cfg, workdir=wd, workers=workers, timeout=timeout, env={"WV_TRACES": path}, java_opts=java_opts)
        chk.add_tlc(name or ("TV:" + module), res, "trace validation of %d recorded traces" % len(traces))
        rej, drift = {}, {}
        for t in tlc.printed_tuples(res, "REJ"):
            rej[str(t[0])] = (t[1], _names(t[2]))
        for t in tlc.printed_tuples(res, "DRIFT"):
            drift.setdefault(str(t[0]), (t[1], _names(t[2])))
        # every trace is a chain of distinct states: len+2 when accepted, pos+1 when rejected
        expect = 0
        for t in traces:
            i = str(t["id"])
            expect += (rej[i][0] + 1) if i in rej else (len(t["ev"]) + 2)
        if res.distinct != expect:
            if os.environ.get('WV_DEBUG'):
                open('/tmp/wv_debug_tv.out','w').write(res.out); shutil.copy(path,'/tmp/wv_debug_traces.json')
            raise MachineryFailure("TLC processed %d states, %d expected for %d traces (%s)\n%s" % (
                res.distinct, expect, len(traces), module, "\n".join(res.out.splitlines()[-25:])))
        chk.traces_validated += len(traces)
        return rej, drift
    finally:
        shutil.rmtree(wd, ignore_errors=True)


def _names(s):
    s = str(s).strip()
    if s.startswith("{") and s.endswith("}"):
        s = s[1:-1]
    return [x.strip().strip('"') for x in s.split(",") if x.strip()]
