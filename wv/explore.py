"""Schedule exploration on top of dsched: seeded PCT-style priority walks,
uniform random walks, replay of a fixed schedule, and systematic depth-first
enumeration with a pre-emption bound (stateless: every schedule re-executes
the scenario from scratch)."""
import random

from . import dsched


class Replay:
    """Follow `choices`; afterwards keep running the current thread while it is
    enabled, else the first enabled one (no pre-emption)."""

    def __init__(self, choices=()):
        self.choices = list(choices)
        self.i = 0
        self.last = None
        self.diverged = False

    def choose(self, S, en):
        if self.i < len(self.choices):
            c = self.choices[self.i]
            self.i += 1
            if c in en:
                self.last = c
                return c
            self.diverged = True
        if self.last in en:
            return self.last
        self.last = en[0]
        return en[0]


class Uniform:
    def __init__(self, seed):
        self.rng = random.Random(seed)

    def choose(self, S, en):
        return self.rng.choice(en)


class PCT:
    """Random priorities per thread, `d` random priority change points; highest
    priority enabled thread runs.  Long single-thread runs are the norm, which
    is what exposes windows that uniform choice starves (DESIGN.md F11)."""

    def __init__(self, seed, d=3, horizon=400):
        self.rng = random.Random(seed)
        self.prio = {}
        self.change = sorted(self.rng.randrange(1, horizon) for _ in range(d))
        self.low = 0.0
        self.n = 0

    def choose(self, S, en):
        self.n += 1
        for t in en:
            if t not in self.prio:
                self.prio[t] = 1.0 + self.rng.random()
        best = max(en, key=lambda t: self.prio[t])
        while self.change and self.change[0] <= self.n:
            self.change.pop(0)
            self.low -= 1.0
            self.prio[best] = self.low + self.rng.random() * 0.5
            best = max(en, key=lambda t: self.prio[t])
        return best


def run_once(build, policy, budget=4000):
    """build(S) -> ctx with ctx.finish(status) -> result.  Returns (result, steps)
    where steps = [(enabled, chosen)]."""
    S = dsched.Sched()
    dsched.set_sched(S)
    steps = []
    ctx = None
    try:
        ctx = build(S)
        status = "done"
        while True:
            en = S.enabled()
            if not en:
                status = "quiescent" if S.live() else "done"
                break
            if S.nsteps >= budget:
                status = "budget"
                break
            c = policy.choose(S, en)
            steps.append((en, c))
            S.step(c)
        result = ctx.finish(status)
    finally:
        try:
            S.shutdown()
        finally:
            if ctx is not None and hasattr(ctx, "cleanup"):
                ctx.cleanup()
            dsched.set_sched(None)
    return result, steps


def dfs(build, bound=2, limit=2000, budget=4000, on_result=None, prefix=()):
    """Enumerate schedules with at most `bound` pre-emptions (a pre-emption =
    switching away from a thread that is still enabled).  Calls
    on_result(result, choices).  Returns (#schedules, exhausted?)."""
    stack = [list(prefix)]
    n = 0
    while stack:
        if n >= limit:
            return n, False
        pre = stack.pop()
        pol = Replay(pre)
        result, steps = run_once(build, pol, budget)
        n += 1
        choices = [c for (_, c) in steps]
        if on_result is not None:
            on_result(result, choices)
        # count pre-emptions along the executed schedule
        pcount = []
        p = 0
        last = None
        for (en, c) in steps:
            pcount.append(p)
            if last is not None and last in en and c != last:
                p += 1
            last = c
        for i in range(len(steps) - 1, len(pre) - 1, -1):
            en, c = steps[i]
            last = steps[i - 1][1] if i > 0 else None
            for alt in en:
                if alt == c:
                    continue
                cost = pcount[i] + (1 if (last is not None and last in en and alt != last) else 0)
                if cost <= bound:
                    stack.append(choices[:i] + [alt])
    return n, True
