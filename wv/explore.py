"""Schedule exploration on top of dsched: seeded PCT-style priority walks,
uniform random walks, replay of a fixed schedule, and systematic depth-first
enumeration with a pre-emption bound (stateless: every schedule re-executes
the scenario from scratch)."""
import random

from . import dsched


class Replay:
    """Follow `choices`; afterwards keep running the current thread while it is
    enabled, else the first enabled one (no pre-emption)."""

    def __init__(self, choices=()):
        self.choices = list(choices)
        self.i = 0
        self.last = None
        self.diverged = False

    def choose(self, S, en):
        if self.i < len(self.choices):
            c = self.choices[self.i]
            self.i += 1
            if c in en:
                self.last = c
                return c
            self.diverged = True
        if self.last in en:
            return self.last
        self.last = en[0]
        return en[0]


class Preempt:
    """Non-pre-emptive execution (a thread runs until it blocks; the successor is
    chosen at random) with pre-emptions at k randomly chosen step indices:
    samples the space of schedules with at most k pre-emptions."""

    def __init__(self, seed, k=2, horizon=300):
        self.rng = random.Random(seed)
        self.points = set(self.rng.randrange(0, horizon) for _ in range(k))
        self.n = -1
        self.last = None

    def choose(self, S, en):
        self.n += 1
        if self.n in self.points and len(en) > 1:
            c = self.rng.choice([t for t in en if t != self.last] or en)
        elif self.last in en:
            c = self.last
        else:
            c = self.rng.choice(en)
        self.last = c
        return c


class Uniform:
    def __init__(self, seed):
        self.rng = random.Random(seed)

    def choose(self, S, en):
        return self.rng.choice(en)


class PCT:
    """Random priorities per thread, `d` random priority change points; highest
    priority enabled thread runs.  Long single-thread runs are the norm, which
    is what exposes windows that uniform choice starves (DESIGN.md F11)."""

    def __init__(self, seed, d=3, horizon=400):
        self.rng = random.Random(seed)
        self.prio = {}
        self.change = sorted(self.rng.randrange(1, horizon) for _ in range(d))
        self.low = 0.0
        self.n = 0

    def choose(self, S, en):
        self.n += 1
        for t in en:
            if t not in self.prio:
                self.prio[t] = 1.0 + self.rng.random()
        best = max(en, key=lambda t: self.prio[t])
        while self.change and self.change[0] <= self.n:
            self.change.pop(0)
            self.low -= 1.0
            self.prio[best] = self.low + self.rng.random() * 0.5
            best = max(en, key=lambda t: self.prio[t])
        return best


FAIR = 80  # a thread may take this many consecutive steps while others are enabled


def run_once(build, policy, budget=4000):
    """build(S) -> ctx with ctx.finish(status) -> result.  Returns (result, steps)
    where steps = [(enabled, chosen)]."""
    S = dsched.Sched()
    dsched.set_sched(S)
    steps = []
    ctx = None
    streak = [None, 0]
    lastrun = {}

    def choose(en):
        if len(steps) >= budget:
            return None
        c = policy.choose(S, en)
        # fairness guard: a spinning thread (e.g. a failing try-lock loop) must not starve the others
        if c == streak[0]:
            streak[1] += 1
            if streak[1] > FAIR and len(en) > 1 and not getattr(policy, "following", False):
                others = [t for t in en if t != c]
                c = min(others, key=lambda t: lastrun.get(t, -1))
                if hasattr(policy, "last"):
                    policy.last = c
        if c != streak[0]:
            streak[0], streak[1] = c, 1
        lastrun[c] = len(steps)
        steps.append((en, c))
        return c

    try:
        ctx = build(S)
        status = S.run(choose)
        if status == "stopped":
            status = "budget"
        result = ctx.finish(status)
    finally:
        try:
            S.shutdown()
        finally:
            if ctx is not None and hasattr(ctx, "cleanup"):
                ctx.cleanup()
            dsched.set_sched(None)
    return result, steps


def dfs(build, bound=2, limit=2000, budget=4000, on_result=None, prefix=()):
    """Enumerate schedules with at most `bound` pre-emptions (a pre-emption =
    switching away from a thread that is still enabled).  Calls
    on_result(result, choices).  Returns (#schedules, exhausted?)."""
    stack = [list(prefix)]
    n = 0
    while stack:
        if n >= limit:
            return n, False
        pre = stack.pop()
        pol = Replay(pre)
        result, steps = run_once(build, pol, budget)
        n += 1
        choices = [c for (_, c) in steps]
        if on_result is not None:
            on_result(result, choices)
        # count pre-emptions along the executed schedule
        pcount = []
        p = 0
        last = None
        for (en, c) in steps:
            pcount.append(p)
            if last is not None and last in en and c != last:
                p += 1
            last = c
        for i in range(len(steps) - 1, len(pre) - 1, -1):
            en, c = steps[i]
            last = steps[i - 1][1] if i > 0 else None
            for alt in en:
                if alt == c:
                    continue
                cost = pcount[i] + (1 if (last is not None and last in en and alt != last) else 0)
                if cost <= bound:
                    stack.append(choices[:i] + [alt])
    return n, True


def spread(build, limit=300, budget=4000, on_result=None, seed=0):
    """Single pre-emptions spread evenly over the WHOLE default execution: the default (non-pre-emptive) run is
    recorded, then for `limit` evenly spaced (position, other enabled thread) pairs the run is repeated with a switch
    to that thread at that position.  Complements dfs(), whose budget is spent on the earliest positions."""
    result, steps = run_once(build, Replay([]), budget)
    choices = [c for (_, c) in steps]
    cands = []
    for i, (en, c) in enumerate(steps):
        for alt in en:
            if alt != c:
                cands.append((i, alt))
    if len(cands) > limit:
        stride = len(cands) / float(limit)
        off = (seed % 97) / 97.0 * stride
        cands = [cands[min(int(off + k * stride), len(cands) - 1)] for k in range(limit)]
    n = 0
    for i, alt in cands:
        result, st = run_once(build, Replay(choices[:i] + [alt]), budget)
        n += 1
        if on_result is not None:
            on_result(result, [c for (_, c) in st])
    return n


class Guided:
    """Follow a behaviour of the model: `seq` = [(thread, signature)] of its visible steps.  `sigof(thread, pending
    label)` gives the signature of the operation a thread is about to perform (None = outside the model's alphabet).
    At every choice: the thread of the next expected step runs if that step is what it is about to do; operations
    outside the alphabet are let through (of that thread, or - when it is blocked - of another one, which is how e.g.
    the dispatcher's own lock is released); anything else means the code cannot follow the behaviour (`diverged`).
    Workers are interchangeable: which real worker stands for a worker of the model is decided when it picks up a
    task (`pickup` = the signature of that step).  After the behaviour (or a divergence): no pre-emption."""

    def __init__(self, seq, sigof, pickup=None):
        self.seq = list(seq)
        self.sigof = sigof
        self.k = 0
        self.diverged = None      # (position, expected, what the code offers)
        self.last = None
        self.pickup = pickup
        self.ren = {}             # worker of the model -> real worker

    def real(self, t):
        return self.ren.get(t, t)

    @property
    def following(self):
        # while a behaviour of the model is being followed the fairness guard of run_once must not interfere
        return self.diverged is None and self.k < len(self.seq)

    def note(self, thread, sig):
        pass

    def choose(self, S, en):
        if self.diverged is None and self.k < len(self.seq):
            t, g = self.seq[self.k]
            r = self.real(t)
            pend = {y: self.sigof(y, S.threads[y].pending) for y in en}
            if g == self.pickup and t.startswith("w") and pend.get(r) != g:
                cand = [y for y in en if y.startswith("w") and pend[y] == g]
                if cand:
                    y = cand[0]
                    inv = {v: k for k, v in self.ren.items()}
                    m = inv.get(y, y)
                    self.ren[t], self.ren[m] = y, r
                    r = y
            if r in en and pend[r] == g:
                self.k += 1
                self.last = r
                return r
            if r in en and pend[r] is None:
                self.last = r
                return r
            if r not in en:
                helpers = [y for y in en if pend[y] is None]
                if helpers:
                    y = self.last if self.last in helpers else helpers[0]
                    self.last = y
                    return y
            self.diverged = (self.k, (t, g), sorted((y, pend[y]) for y in en))
        if self.last in en:
            return self.last
        self.last = en[0]
        return en[0]
