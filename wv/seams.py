"""Simulated kernel for waitress: sockets, listening sockets, pipes, select /
poll, clock - interposed through module attributes of the waitress modules
(no source change).  Every socket / pipe / select call is a scheduler VO."""
import errno
import select as real_select
import socket as real_socket
import types

from . import dsched


CLOCK = [0.0]   # virtual time used when no scheduler is active (synchronous drivers)


class Kernel:
    def __init__(self):
        self.fds = {}
        self.next_fd = 100000  # far above any real descriptor
        self.log = []  # (thread, what, fd)

    def alloc(self, obj):
        fd = self.next_fd
        self.next_fd += 1
        self.fds[fd] = obj
        return fd

    def who(self):
        S = dsched.S
        return (S.me() if S else None) or "main"

    def readable(self, fd):
        o = self.fds.get(fd)
        return o is not None and o.k_readable()

    def writable(self, fd):
        o = self.fds.get(fd)
        return o is not None and o.k_writable()


def _vo(kind, obj, enabled=None, info=None):
    S = dsched.S
    if S is not None and S.me() is not None:
        S.vo(kind, obj, enabled=enabled, info=info)


class FakeSocket:
    """Connected stream socket, server side.  The peer is driven by the harness:
    deliver(bytes) -> inbox; wire = everything the server sent; room = bytes the
    kernel send buffer accepts (None = unlimited); faults = scripted errors."""
    family = real_socket.AF_INET
    type = real_socket.SOCK_STREAM
    proto = 0

    def __init__(self, kernel, name="c", sndbuf=65536, unit_sends=False):
        self.k = kernel
        self.name = name
        self.fd = kernel.alloc(self)
        self.inbox = []  # list of byte chunks (one recv returns at most one chunk)
        self.eof = False
        self.wire = b""
        self.sent_log = []  # sizes accepted per send call
        self.room = None
        self.sndbuf = sndbuf
        self.closed = False
        self.close_calls = []
        self.faults = {}  # op -> list of errno/"eof" to raise on the next calls
        self.peer_closed = False
        self.calls = []
        self.blocking = True
        self.blocked = 0  # sends refused with EWOULDBLOCK
        self.last_io = CLOCK[0]

    # --- harness side ---
    def deliver(self, data):
        self.inbox.append(data)

    def fault(self, op, err):
        self.faults.setdefault(op, []).append(err)

    def _take_fault(self, op):
        q = self.faults.get(op)
        if q:
            e = q.pop(0)
            if e is None:
                return
            if e == "eof":
                return "eof"
            cb = getattr(self.k, "on_fault", None)
            if cb is not None:
                cb(self.name, op, e)
            if op == "send" and e != errno.EWOULDBLOCK:
                self.sk_err = True      # a socket that has reported an error is reported ready by select / poll from then on
            raise OSError(e, "injected %s" % errno.errorcode.get(e, e))

    # --- kernel readiness ---
    def k_readable(self):
        return bool(self.inbox) or self.eof or bool(self.faults.get("recv"))

    def k_writable(self):
        return self.room is None or self.room > 0 or bool(self.faults.get("send")) or self.peer_closed or getattr(self, "sk_err", False)

    # --- socket API used by waitress ---
    def fileno(self):
        return self.fd

    def getsockopt(self, level, opt, *a):
        self.calls.append("getsockopt")
        self._take_fault("getsockopt")
        if opt == real_socket.SO_SNDBUF:
            return self.sndbuf
        return 0

    def setsockopt(self, *a):
        self.calls.append("setsockopt")
        self._take_fault("setsockopt")

    def setblocking(self, flag):
        self.calls.append("setblocking")
        self._take_fault("setblocking")
        self.blocking = bool(flag)

    def getpeername(self):
        return ("127.0.0.1", 40000 + self.fd)

    def getsockname(self):
        return ("127.0.0.1", 8080)

    def send(self, data):
        _vo("send", self.name)
        if self.closed:
            raise OSError(errno.EBADF, "send on closed socket")
        self._take_fault("send")
        if self.peer_closed:
            raise OSError(errno.EPIPE, "peer closed")
        data = bytes(data)
        n = len(data) if self.room is None else min(len(data), self.room)
        if n == 0 and len(data) > 0:
            self.blocked += 1
            raise OSError(errno.EWOULDBLOCK, "would block")
        if self.room is not None:
            self.room -= n
        self.wire += data[:n]
        self.sent_log.append(n)
        if n:
            self.last_io = CLOCK[0]
        return n

    def recv(self, n):
        _vo("recv", self.name)
        if self.closed:
            raise OSError(errno.EBADF, "recv on closed socket")
        f = self._take_fault("recv")
        if f == "eof":
            return b""
        if self.inbox:
            self.last_io = CLOCK[0]
            d = self.inbox.pop(0)
            if len(d) > n:
                self.inbox.insert(0, d[n:])
                d = d[:n]
            return d
        if self.eof:
            return b""
        raise OSError(errno.EWOULDBLOCK, "would block")

    def close(self):
        _vo("close", self.name)
        self.close_calls.append(self.k.who())
        self.k.log.append((self.k.who(), "close", self.fd))
        self.closed = True
        self.k.fds.pop(self.fd, None)
        self._take_fault("close")

    def shutdown(self, how):
        pass


class FakeListener:
    family = real_socket.AF_INET
    type = real_socket.SOCK_STREAM
    proto = 0

    def __init__(self, kernel, name="L", family=None):
        self.k = kernel
        self.name = name
        self.fd = kernel.alloc(self)
        self.backlog = []  # FakeSocket objects waiting for accept
        self.closed = False
        self.close_calls = []
        self.faults = {}
        self.accepted = []
        if family is not None:
            self.family = family

    def k_readable(self):
        return bool(self.backlog) or bool(self.faults.get("accept"))

    def k_writable(self):
        return False

    def fileno(self):
        return self.fd

    def setblocking(self, f):
        pass

    def setsockopt(self, *a):
        pass

    def getsockopt(self, *a):
        return 0

    def bind(self, addr):
        pass

    def listen(self, n):
        pass

    def getsockname(self):
        return ("127.0.0.1", 8080)

    def fault(self, op, err):
        self.faults.setdefault(op, []).append(err)

    def accept(self):
        _vo("accept", self.name)
        if self.closed:
            raise OSError(errno.EBADF, "accept on closed socket")
        q = self.faults.get("accept")
        if q:
            e = q.pop(0)
            if e is not None:
                raise OSError(e, "injected accept error")
        if not self.backlog:
            raise OSError(errno.EWOULDBLOCK, "would block")
        c = self.backlog.pop(0)
        self.accepted.append(c)
        return c, c.getpeername()

    def close(self):
        _vo("close", self.name)
        self.close_calls.append(self.k.who())
        self.k.log.append((self.k.who(), "close", self.fd))
        self.closed = True
        self.k.fds.pop(self.fd, None)


class PipeEnd:
    def __init__(self, kernel, pipe, reader):
        self.k = kernel
        self.pipe = pipe
        self.reader = reader
        self.fd = kernel.alloc(self)

    def k_readable(self):
        return self.reader and self.pipe["n"] > 0

    def k_writable(self):
        return not self.reader


class FakeOS:
    """The parts of `os` that trigger.py / wasyncore.file_dispatcher use."""
    name = "posix"

    def __init__(self, kernel):
        self.k = kernel
        import os as real_os
        self._os = real_os
        self.strerror = real_os.strerror
        self.path = real_os.path

    def pipe(self):
        p = {"n": 0}
        r = PipeEnd(self.k, p, True)
        w = PipeEnd(self.k, p, False)
        return r.fd, w.fd

    def dup(self, fd):
        o = self.k.fds[fd]
        d = PipeEnd(self.k, o.pipe, o.reader)
        return d.fd

    def set_blocking(self, fd, flag):
        pass

    def write(self, fd, data):
        _vo("pull", "trigger")
        o = self.k.fds.get(fd)
        if o is None:
            raise OSError(errno.EBADF, "write on closed pipe")
        o.pipe["n"] += len(data)
        _vo("pulled", "trigger")     # the caller may be pre-empted between the system call and what it does next
        return len(data)

    def read(self, fd, n):
        _vo("drain", "trigger")
        o = self.k.fds.get(fd)
        if o is None:
            raise OSError(errno.EBADF, "read on closed pipe")
        if o.pipe["n"] == 0:
            raise OSError(errno.EWOULDBLOCK, "would block")
        k = min(n, o.pipe["n"])
        o.pipe["n"] -= k
        _vo("drained", "trigger")
        return b"x" * k

    def close(self, fd):
        self.k.log.append((self.k.who(), "close", fd))
        if self.k.fds.pop(fd, None) is None:
            raise OSError(errno.EBADF, "close of closed fd")


class FakeSelect:
    """select module shim: select() and poll() over the simulated kernel.
    timeout_mode: 'never' (poll timeout taken as infinite: the call blocks
    until a descriptor is ready) or 'clock' (may return empty; virtual time
    advances by the timeout)."""
    POLLIN, POLLPRI, POLLOUT = real_select.POLLIN, real_select.POLLPRI, real_select.POLLOUT
    POLLERR, POLLHUP, POLLNVAL = real_select.POLLERR, real_select.POLLHUP, real_select.POLLNVAL
    error = OSError

    def __init__(self, kernel, timeout_mode="never"):
        self.k = kernel
        self.timeout_mode = timeout_mode
        self.calls = 0
        self.last_sets = None
        self.empty_returns = 0

    def _ready(self, r, w):
        k = self.k
        return [fd for fd in r if k.readable(fd)], [fd for fd in w if k.writable(fd)]

    def select(self, r, w, e, timeout=None):
        self.calls += 1
        self.last_sets = (list(r), list(w))
        k = self.k

        def en():
            if self.timeout_mode != "never":
                return True
            if any(fd not in k.fds for fd in list(r) + list(w) + list(e)):
                return True
            rr, ww = self._ready(r, w)
            return bool(rr or ww)
        _vo("select", "io", enabled=en)
        for fd in list(r) + list(w) + list(e):
            if fd not in k.fds:
                raise OSError(errno.EBADF, "Bad file descriptor in select set")
        rr, ww = self._ready(r, w)
        # urgent (out-of-band) data pending: the descriptor is reported in the exceptional set as well
        ee = [fd for fd in e if getattr(k.fds.get(fd), "oob", False)]
        if not rr and not ww:
            self.empty_returns += 1
            S = dsched.S
            if S is not None and timeout:
                S.clock += timeout
        return rr, ww, ee

    def poll(self):
        return _Poller(self)


class _Poller:
    def __init__(self, sel):
        self.sel = sel
        self.reg = {}

    def register(self, fd, flags):
        self.reg[fd] = flags

    def poll(self, timeout=None):
        sel = self.sel
        sel.calls += 1
        k = sel.k
        reg = dict(self.reg)
        sel.last_sets = ([fd for fd, f in reg.items() if f & sel.POLLIN], [fd for fd, f in reg.items() if f & sel.POLLOUT])

        def result():
            out = []
            for fd, fl in reg.items():
                if fd not in k.fds:
                    out.append((fd, sel.POLLNVAL))
                    continue
                ev = 0
                if fl & sel.POLLIN and k.readable(fd):
                    ev |= sel.POLLIN
                if fl & sel.POLLOUT and k.writable(fd):
                    ev |= sel.POLLOUT
                if fl & sel.POLLPRI and getattr(k.fds.get(fd), "oob", False) and ev:
                    ev |= sel.POLLPRI
                if ev:
                    out.append((fd, ev))
            return out

        def en():
            return sel.timeout_mode != "never" or bool(result())
        _vo("select", "io", enabled=en)
        res = result()
        if not res:
            sel.empty_returns += 1
            S = dsched.S
            if S is not None and timeout:
                S.clock += timeout / 1000.0
        return res


class FakeTime:
    def __init__(self):
        import time as real_time
        self._t = real_time
        self.gmtime = real_time.gmtime
        self.strftime = real_time.strftime

    def time(self):
        S = dsched.S
        return 1000000.0 + (S.clock if S is not None else CLOCK[0])

    def sleep(self, n):
        S = dsched.S
        _vo("sleep", "io")
        if S is not None:
            S.clock += n


class Installed:
    """Context manager: installs the shims into the waitress modules and
    restores the originals afterwards."""

    def __init__(self, kernel, timeout_mode="never", shim_threading=True):
        self.k = kernel
        self.timeout_mode = timeout_mode
        self.saved = []
        self.select = FakeSelect(kernel, timeout_mode)
        self.os = FakeOS(kernel)
        self.time = FakeTime()
        self.shim_threading = shim_threading

    def _set(self, mod, name, val):
        self.saved.append((mod, name, getattr(mod, name)))
        setattr(mod, name, val)

    def __enter__(self):
        import waitress.channel as ch
        import waitress.server as sv
        import waitress.task as tk
        import waitress.trigger as tg
        import waitress.wasyncore as wa
        th = dsched.threading_shim()
        if self.shim_threading:
            for m in (ch, tk, tg):
                self._set(m, "threading", th)
        self._set(wa, "select", self.select)
        for m in (wa, ch, sv, tk):
            self._set(m, "time", self.time)
        self._set(tg, "os", self.os)
        self._set(wa, "os", self.os)
        return self

    def __exit__(self, *a):
        for mod, name, val in reversed(self.saved):
            setattr(mod, name, val)
        self.saved = []
