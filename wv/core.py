"""Common plumbing of every check: seed/tier, accumulation of TLC statistics,
violation vs. known finding vs. drift, evidence file, exit status."""
import json
import os
import sys
import time

VERIF = os.path.dirname(os.path.dirname(os.path.abspath(__file__)))
REPO = os.environ.get("WV_REPO", "/repo")
SRC = os.path.join(REPO, "src")


def repo_on_path():
    """Checks always import waitress from the *working tree* of /repo."""
    if SRC not in sys.path:
        sys.path.insert(0, SRC)
    import logging
    lg = logging.getLogger("waitress")
    if not any(isinstance(h, logging.NullHandler) for h in lg.handlers):
        lg.addHandler(logging.NullHandler())
    lg.propagate = False
    ql = logging.getLogger("waitress.queue")
    if not any(isinstance(h, logging.NullHandler) for h in ql.handlers):
        ql.addHandler(logging.NullHandler())
    ql.propagate = False
    import warnings
    warnings.simplefilter("ignore")


def load_findings():
    p = os.path.join(VERIF, "known_findings.json")
    if not os.path.exists(p):
        return []
    return json.load(open(p)).get("findings", [])


def _match(m, sig):
    for k, v in m.items():
        if k not in sig:
            return False
        if isinstance(v, list):
            if sig[k] not in v:
                return False
        elif sig[k] != v:
            return False
    return True


class MachineryFailure(Exception):
    pass


class Check:
    def __init__(self, pid, tier=None, seed=None, level="model_checking"):
        self.pid = pid
        self.tier = tier or os.environ.get("VERIF_TIER") or "quick"
        if self.tier not in ("quick", "thorough"):
            self.tier = "quick"
        try:
            self.seed = int(seed if seed is not None else os.environ.get("VERIF_SEED", "0"))
        except ValueError:
            self.seed = 0
        self.level = level
        self.t0 = time.time()
        self.states = 0
        self.transitions = 0
        self.tlc_runs = []
        self.traces_validated = 0
        self.evaluations = 0
        self.nontrivial = set()
        self.samples = []
        self.violations = []
        self.known = {}
        self.classes = {}
        self.drift = []
        self.assumptions = []
        self.extra = {}
        self.exhaustive = None
        self.rule = ""
        self.findings = [f for f in load_findings() if f.get("property") == pid]
        import glob
        for old in glob.glob(os.path.join(VERIF, "replays", "%s-%s-*.json" % (pid, self.tier))):
            try:
                os.remove(old)
            except OSError:
                pass
        self.thorough = self.tier == "thorough"

    # ---- accumulation -------------------------------------------------
    def add_tlc(self, name, res, purpose=""):
        """Record a TLC run; a TLC machinery error aborts the check (exit 2)."""
        self.tlc_runs.append({"run": name, "purpose": purpose, "generated": res.generated,
                              "distinct": res.distinct, "depth": res.depth,
                              "wall_s": round(res.wall, 2), "violated": res.violated})
        self.states += res.distinct
        self.transitions += res.generated
        if res.error:
            tail = "\n".join(res.out.splitlines()[-40:])
            raise MachineryFailure("TLC run %s failed: %s\n%s" % (name, res.error, tail))
        return res

    def sample(self, s, limit=6):
        if len(self.samples) < limit:
            self.samples.append(s)

    def count(self, n=1, nontrivial_key=None):
        self.evaluations += n
        if nontrivial_key is not None:
            self.nontrivial.add(nontrivial_key)

    # ---- verdicts -----------------------------------------------------
    def violation(self, sig, detail, replay=None):
        """sig: dict identifying the failing input/call site/history class."""
        for f in self.findings:
            if _match(f.get("match", {}), sig):
                k = f.get("id", "?")
                self.known.setdefault(k, {"finding": f, "n": 0, "first": detail})
                self.known[k]["n"] += 1
                return False
        key = json.dumps(sig, sort_keys=True, default=str)
        self.classes[key] = self.classes.get(key, 0) + 1
        # keep the first few of every class, at most 60 in all
        if self.classes[key] <= 3 and sum(1 for v in self.violations if v is not None) < 60:
            self.violations.append({"sig": sig, "detail": detail, "replay": replay})
        else:
            self.violations.append(None)
        return True

    def note_drift(self, what):
        if len(self.drift) < 20:
            self.drift.append(what)

    # ---- finish -------------------------------------------------------
    def finish(self):
        wall = time.time() - self.t0
        level = self.level
        if self.drift and level == "model_checking":
            level = "exploration"
        cov = {
            "states": self.states,
            "transitions": self.transitions,
            "traces_validated_against_impl": self.traces_validated,
            "evaluations": max(self.evaluations, 0),
            "distinct_nontrivial": len(self.nontrivial),
            "rule": self.rule,
            "samples": self.samples or ["(no sample recorded)"],
            "tlc_runs": self.tlc_runs,
            "drift": self.drift,
            "known_findings_matched": {k: v["n"] for k, v in self.known.items()},
        }
        if self.exhaustive is not None:
            cov["exhaustive"] = bool(self.exhaustive)
        cov.update(self.extra)
        real = [v for v in self.violations]
        ev = {
            "property_id": self.pid,
            "tier": self.tier,
            "seed": self.seed,
            "level": level,
            "coverage": cov,
            "assumptions": self.assumptions,
            "wall_s": round(wall, 2),
            "violations": len(real),
        }
        os.makedirs(os.path.join(VERIF, "evidence"), exist_ok=True)
        with open(os.path.join(VERIF, "evidence", self.pid + ".json"), "w") as f:
            json.dump(ev, f, indent=1, default=str)
        for k, v in self.known.items():
            print("KNOWN-FINDING: property=%s %s [%s, %d occurrence(s)]" % (self.pid, v["finding"].get("what", ""), k, v["n"]))
        for d in self.drift[:5]:
            print("DRIFT property=%s %s" % (self.pid, d))
        if real:
            os.makedirs(os.path.join(VERIF, "replays"), exist_ok=True)
            shown = 0
            for i, v in enumerate(real):
                if v is None:
                    continue
                path = os.path.join(VERIF, "replays", "%s-%s-%d.json" % (self.pid, self.tier, i))
                with open(path, "w") as f:
                    json.dump({"property": self.pid, "sig": v["sig"], "detail": v["detail"], "replay": v["replay"],
                               "seed": self.seed, "tier": self.tier}, f, indent=1, default=str)
                if shown < 10:
                    print("VIOLATION property=%s replay=%s" % (self.pid, path))
                    print("  sig=%s" % json.dumps(v["sig"], default=str)[:600])
                    print("  detail=%s" % str(v["detail"])[:800])
                    shown += 1
            for k, n in sorted(self.classes.items(), key=lambda kv: -kv[1])[:25]:
                print("  class x%d %s" % (n, k[:300]))
            print("%s: %d violation(s) in %d class(es) [%s tier, %.1fs]" % (self.pid, len(real), len(self.classes), self.tier, wall))
            return 1
        print("%s: ok  states=%d transitions=%d impl_traces=%d evaluations=%d nontrivial=%d known=%d drift=%d [%s tier, %.1fs]" % (
            self.pid, self.states, self.transitions, self.traces_validated, self.evaluations, len(self.nontrivial),
            len(self.known), len(self.drift), self.tier, wall))
        return 0


def main(run, pid, level="model_checking"):
    import argparse
    ap = argparse.ArgumentParser()
    ap.add_argument("--tier", default=None)
    ap.add_argument("--seed", default=None)
    ap.add_argument("--replay", default=None)
    a = ap.parse_args(sys.argv[2:] if len(sys.argv) > 1 and sys.argv[1] == pid else sys.argv[1:])
    chk = Check(pid, a.tier, a.seed, level)
    try:
        repo_on_path()
        if a.replay:
            rp = json.load(open(a.replay))
            run(chk, replay=rp)
        else:
            run(chk, replay=None)
        rc = chk.finish()
    except MachineryFailure as e:
        print("MACHINERY-FAILURE property=%s %s" % (pid, e))
        rc = 2
    except Exception:
        # an exception nobody planned for (possibly raised by the code under test where the harness calls it without a
        # net): no verdict - exit 2, never exit 1 without a VIOLATION line
        import traceback
        print("MACHINERY-FAILURE property=%s unexpected exception in the check:\n%s" % (pid, traceback.format_exc()[-3000:]))
        rc = 2
    sys.exit(rc)
