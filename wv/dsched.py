"""Deterministic scheduler for real waitress threads.

Logical threads are real Python threads, each parked on its own semaphore;
exactly one runs at a time and control returns to the scheduler at every
*visible operation* (VO): lock operations, condition wait/notify, socket and
pipe calls, select/poll, and every access to a racy attribute.  A thread that
announces a VO parks *before* performing it; when the scheduler picks the
thread, the operation executes and the thread runs on to its next VO.  Blocking
is simulated: a VO carries an `enabled` predicate (lock free, condition
notified, descriptor ready), so deadlock / quiescence is a state the scheduler
sees, not a hang."""
import sys
import threading
import types


class Abort(BaseException):
    """Raised inside logical threads to unwind them at the end of a run."""


class LThread:
    __slots__ = ("name", "sem", "done", "exc", "pending", "enabled", "thread", "steps", "daemonic", "info")

    def __init__(self, name):
        self.name = name
        self.sem = threading.Semaphore(0)
        self.done = False
        self.exc = None
        self.pending = ("start", name)
        self.enabled = None
        self.thread = None
        self.steps = 0
        self.daemonic = False
        self.info = None


class Sched:
    """Baton-passing scheduler: the thread that arrives at a VO runs the choice
    function itself; if it is chosen again it simply continues (no context
    switch), otherwise it wakes the chosen thread and parks."""

    def __init__(self):
        self.threads = {}
        self.order = []
        self.cur = None
        self.main = threading.Semaphore(0)
        self.nsteps = 0
        self.aborting = False
        self.on_step = None   # callback(thread_name, executed_label) after each step
        self.clock = 0.0
        self.choose = None    # callable(enabled_names) -> name | None (None = stop the run)
        self.status = None
        self.running = False

    # -- set-up (controlling thread, or a logical thread spawning another) ---
    def spawn(self, name, fn, daemonic=False):
        t = LThread(name)
        t.daemonic = daemonic

        def run():
            t.sem.acquire()
            try:
                if not self.aborting:
                    fn()
            except Abort:
                pass
            except BaseException as e:  # noqa
                t.exc = e
            label = t.pending
            t.done = True
            t.pending = None
            if self.aborting or not self.running:
                self.main.release()
                return
            self._after_step(t, label)
            self._dispatch(t)

        t.thread = threading.Thread(target=run, daemon=True, name="wv-" + name)
        if name in self.threads:  # a finished thread's name is reused (worker numbers are)
            self.order.remove(name)
        self.threads[name] = t
        self.order.append(name)
        t.thread.start()
        return t

    def enabled(self):
        out = []
        for n in self.order:
            t = self.threads[n]
            if t.done:
                continue
            if t.enabled is None or t.enabled():
                out.append(n)
        return out

    def live(self):
        return [n for n in self.order if not self.threads[n].done]

    def run(self, choose):
        """Run until `choose` returns None or nothing is enabled.  Returns the
        status: 'done' | 'quiescent' | 'stopped'."""
        self.choose = choose
        self.running = True
        self.status = None
        self._dispatch(None)
        if self.status is None:
            self.main.acquire()
        self.running = False
        return self.status

    def _after_step(self, t, label):
        self.nsteps += 1
        t.steps += 1
        if self.on_step is not None:
            cur = self.cur
            self.cur = None
            try:
                self.on_step(t.name, label)
            finally:
                self.cur = cur

    def _dispatch(self, frm):
        """Pick the next thread.  Called by the thread that just finished a step
        (frm) or by the controlling thread (frm None).  Returns True if `frm`
        itself may continue."""
        en = self.enabled()
        nxt = None
        if not en:
            self.status = "quiescent" if self.live() else "done"
        else:
            self.cur = None
            nxt = self.choose(en)
            if nxt is None:
                self.status = "stopped"
        if nxt is None:
            self.cur = None
            if frm is not None:
                self.main.release()
            return False
        t = self.threads[nxt]
        self.cur = nxt
        t.enabled = None
        if frm is not None and frm is t:
            return True
        t.sem.release()
        return False

    def shutdown(self):
        """Unwind every parked logical thread."""
        self.aborting = True
        self.running = False
        for n in list(self.order):
            t = self.threads[n]
            guard = 0
            while not t.done and guard < 10000:
                self.cur = n
                t.sem.release()
                if not self.main.acquire(timeout=5):
                    break
                guard += 1
        self.cur = None

    # -- called from logical threads ----------------------------------------
    def me(self):
        return self.cur

    def vo(self, kind, obj="", enabled=None, info=None):
        """Announce the next visible operation and park until scheduled."""
        n = self.cur
        if n is None:
            return  # set-up code on the controlling thread: not scheduled
        t = self.threads[n]
        if self.aborting:
            raise Abort()
        label = t.pending
        t.pending = (kind, obj, _caller())
        t.enabled = enabled
        t.info = info
        self._after_step(t, label)
        if self._dispatch(t):
            return
        t.sem.acquire()
        if self.aborting:
            raise Abort()


def _caller():
    """Name of the innermost waitress function on the stack (label, not line)."""
    f = sys._getframe(2)
    depth = 0
    while f is not None and depth < 12:
        fn = f.f_code.co_filename
        if "/waitress/" in fn and "/wv/" not in fn:
            return f.f_code.co_name
        f = f.f_back
        depth += 1
    return "?"


S = None  # the current scheduler (one run at a time per process)


def set_sched(s):
    global S
    S = s


# ---------------------------------------------------------------------------
# threading shim: Lock / RLock / Condition whose operations are VOs
# ---------------------------------------------------------------------------
class Lock:
    _n = 0

    def __init__(self, name=None):
        Lock._n += 1
        self.name = name or "lock%d" % Lock._n
        self.owner = None
        self.count = 0
        self.reentrant = False

    def _free_for(self, me):
        return self.owner is None or (self.reentrant and self.owner == me)

    def acquire(self, blocking=True, timeout=-1):
        me = S.me() if S else None
        if me is None:
            self.owner = "main"
            self.count += 1
            return True
        if not blocking:
            S.vo("tryacq", self.name)
            if self._free_for(me):
                self.owner = me
                self.count += 1
                return True
            return False
        S.vo("acq", self.name, enabled=lambda: self._free_for(me))
        self.owner = me
        self.count += 1
        return True

    def release(self):
        me = S.me() if S else None
        if me is not None:
            S.vo("rel", self.name)
        if self.count <= 0:
            raise RuntimeError("release unlocked lock")
        self.count -= 1
        if self.count == 0:
            self.owner = None

    def locked(self):
        return self.owner is not None

    def __enter__(self):
        self.acquire()
        return self

    def __exit__(self, *a):
        self.release()


class RLock(Lock):
    def __init__(self, name=None):
        Lock.__init__(self, name)
        self.reentrant = True


class Condition:
    """threading.Condition(lock=None): default lock is an RLock."""
    _n = 0

    def __init__(self, lock=None, name=None):
        Condition._n += 1
        self.name = name or "cond%d" % Condition._n
        if lock is None:
            lock = RLock(self.name + ".lock")
        self.lock = lock
        self.waiters = []  # thread names, FIFO
        self.acquire = lock.acquire
        self.release = lock.release

    def __enter__(self):
        self.lock.acquire()
        return self

    def __exit__(self, *a):
        self.lock.release()

    def wait(self, timeout=None):
        me = S.me() if S else None
        if me is None:
            return True
        lk = self.lock
        if lk.owner != me:
            raise RuntimeError("cannot wait on un-acquired lock")
        saved = lk.count
        lk.count = 0
        lk.owner = None
        self.waiters.append(me)
        state = {"timed_out": False}
        if timeout is None:
            S.vo("wait", self.name, enabled=lambda: me not in self.waiters and lk._free_for(me))
        else:
            # a timed wait may also end by timeout: the scheduler decides (virtual clock)
            S.vo("timedwait", self.name, enabled=lambda: lk._free_for(me), info=timeout)
            if me in self.waiters:
                self.waiters.remove(me)
                state["timed_out"] = True
                S.clock += timeout
        lk.owner = me
        lk.count = saved
        return not state["timed_out"]

    def notify(self, n=1):
        me = S.me() if S else None
        if me is not None:
            S.vo("notify", self.name)
        for _ in range(min(n, len(self.waiters))):
            self.waiters.pop(0)

    def notify_all(self):
        me = S.me() if S else None
        if me is not None:
            S.vo("notify_all", self.name)
        del self.waiters[:]

    notifyAll = notify_all


class FakeThread:
    """threading.Thread replacement: start() registers a logical thread."""
    _count = 0

    def __init__(self, target=None, name=None, args=(), kwargs=None, daemon=None):
        FakeThread._count += 1
        self.target, self.args, self.kwargs = target, args, kwargs or {}
        self.name = name or "thread%d" % FakeThread._count
        self.daemon = daemon

    def start(self):
        S.spawn(self.name, lambda: self.target(*self.args, **self.kwargs), daemonic=True)

    def join(self, timeout=None):
        pass

    def is_alive(self):
        t = S.threads.get(self.name)
        return bool(t and not t.done)


def threading_shim():
    return types.SimpleNamespace(Lock=Lock, RLock=RLock, Condition=Condition, Thread=FakeThread,
                                 current_thread=lambda: types.SimpleNamespace(name=S.me() if S else "main"),
                                 Event=None, Semaphore=None)
