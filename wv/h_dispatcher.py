"""Harness for the real ThreadedTaskDispatcher under the deterministic
scheduler: records the trace format of spec/Trace_Dispatcher.tla."""
from collections import deque

from . import dsched, explore

FOLLOW = {3: 5, 4: 6}
TASKS = [1, 2, 3, 4, 5, 6, 7, 8]
WAITS = {7: 8}      # task 7 returns only once task 8 has run
RACY = ("threads", "stop_count", "active_count", "queue")


def _mkprop(name):
    key = "_wv_" + name

    def g(self):
        S = dsched.S
        if S is not None and S.cur is not None:
            S.vo("rd", name)
        return self.__dict__[key] if key in self.__dict__ else getattr(type(self).__mro__[1], name)

    def s(self, v):
        S = dsched.S
        if S is not None and S.cur is not None:
            S.vo("wr", name)
        self.__dict__[key] = v
    return property(g, s)


def make_class():
    from waitress.task import ThreadedTaskDispatcher

    class TDisp(ThreadedTaskDispatcher):
        def start_new_thread(self, target, thread_no):
            dsched.S.spawn("w%d" % thread_no, lambda: target(thread_no), daemonic=True)

    for n in RACY:
        setattr(TDisp, n, _mkprop(n))
    return TDisp


class LogDeque(deque):
    ctx = None

    def append(self, x):
        deque.append(self, x)
        self.ctx.ev({"k": "enq", "task": getattr(x, "tid", 0)})

    def popleft(self):
        x = deque.popleft(self)
        self.ctx.ev({"k": "deq", "task": getattr(x, "tid", 0)})
        return x


class StubTask:
    def __init__(self, ctx, tid):
        self.ctx, self.tid = ctx, tid

    def service(self):
        S = dsched.S
        dep = WAITS.get(self.tid)
        if dep:
            S.vo("task", "service", enabled=lambda: any(e["k"] == "ran" and e["task"] == dep for e in self.ctx.events))
        else:
            S.vo("task", "service")
        self.ctx.ev({"k": "ran", "task": self.tid})
        f = FOLLOW.get(self.tid)
        if f:
            self.ctx.disp.add_task(self.ctx.tasks[f])

    def cancel(self):
        self.ctx.ev({"k": "cancelled", "task": self.tid})

    def __repr__(self):
        return "<task %d>" % self.tid


def _actor(name):
    if name and name[0] == "w" and name[1:].isdigit():
        return "w", int(name[1:])
    if name and name[0] == "e" and name[1:].isdigit():
        return "e", int(name[1:])
    return "x", 0


class Ctx:
    def __init__(self, S, scn, installed):
        self.S = S
        self.scn = scn
        self.inst = installed
        self.events = []
        self.cur_op = {}
        self.last_snap = {}
        cls = make_class()
        self.disp = cls()
        q = LogDeque()
        q.ctx = self
        self.disp.queue = q
        self.tasks = {t: StubTask(self, t) for t in TASKS}
        self.lockname = self.disp.lock.name
        self.condnames = (self.disp.queue_cv.name, self.disp.thread_exit_cv.name)
        S.on_step = self.on_step
        for name, script in sorted(scn["env"].items()):
            S.spawn(name, (lambda n=name, sc=script: self.env_thread(n, sc)))

    def ev(self, e):
        who, i = _actor(self.S.cur)
        e.setdefault("who", who)
        e.setdefault("id", i)
        self.events.append(e)

    def snap(self):
        d = self.disp.__dict__
        q = d.get("_wv_queue", ())
        wq = [_actor(n)[1] for n in self.disp.queue_cv.waiters]
        return {"queue": [getattr(x, "tid", 0) for x in q], "threads": sorted(d.get("_wv_threads", ())),
                "stop": d.get("_wv_stop_count", 0), "active": d.get("_wv_active_count", 0), "wq": wq}

    def on_step(self, name, label):
        t = self.S.threads[name]
        newp = t.pending
        lk = self.disp.lock
        ended = False
        if label and label[0] == "rel" and label[1] == self.lockname and lk.owner is None:
            ended = True
        if newp and newp[0] in ("wait", "timedwait") and newp[1] in self.condnames:
            ended = True
        if ended:
            who, i = _actor(name)
            op, arg = self.cur_op.get(name, ("handler", 0))
            sn = self.snap()
            self.last_snap[name] = sn
            self.events.append({"k": "cs", "who": who, "id": i, "op": op, "arg": arg, "snap": sn})

    def env_thread(self, name, script):
        S = self.S
        for op, arg in script:
            S.vo("env", op)
            if op == "submit":
                self.cur_op[name] = ("add_task", arg)
                self.disp.add_task(self.tasks[arg])
            elif op == "resize":
                self.cur_op[name] = ("set_thread_count", arg)
                self.disp.set_thread_count(arg)
            elif op == "shutdown":
                self.cur_op[name] = ("shutdown", arg)
                self.disp.shutdown(cancel_pending=bool(arg), timeout=0.25)
                S.vo("env", "returned")  # let the scheduler record the final critical section first
                sn = self.last_snap.get(name, {"queue": []})
                self.ev({"k": "returned", "cancel": bool(arg), "queued": len(sn["queue"])})

    def finish(self, status):
        S = self.S
        live = 0
        for n in S.order:
            t = S.threads[n]
            if t.exc is not None:
                who, i = _actor(n)
                self.events.append({"k": "died", "who": who, "id": i, "exc": repr(t.exc)[:120]})
            if n.startswith("w") and not t.done:
                live += 1
        if status == "budget":
            self.events.append({"k": "livelock", "who": "x", "id": 0})
        self.events.append({"k": "quiescent", "who": "x", "id": 0, "live": live,
                            "queued": len(self.snap()["queue"])})
        return list(self.events)

    def cleanup(self):
        self.inst.__exit__()


def builder(scn):
    from .seams import Installed, Kernel

    def build(S):
        inst = Installed(Kernel())
        inst.__enter__()
        try:
            return Ctx(S, scn, inst)
        except BaseException:
            inst.__exit__()
            raise
    return build


def explore_scenario(args):
    """worker-process entry: returns list of (choices, events)."""
    scn, seed, n_pct, dfs_limit, bound = args
    from .core import repo_on_path
    repo_on_path()
    out = []
    build = builder(scn)

    def keep(res, choices):
        out.append((choices, res))
    n, exhausted = explore.dfs(build, bound=bound, limit=dfs_limit, on_result=keep)
    for i in range(n_pct):
        pol = explore.PCT(seed * 100003 + i, d=1 + i % 4, horizon=150)
        res, steps = explore.run_once(build, pol)
        out.append(([c for (_, c) in steps], res))
    # de-duplicate identical event sequences
    seen, uniq = set(), []
    for ch, evs in out:
        key = repr(evs)
        if key not in seen:
            seen.add(key)
            uniq.append((ch, evs))
    return {"scn": scn, "runs": len(out), "dfs": n, "dfs_exhausted": exhausted, "traces": uniq}
