"""Scripted WSGI applications for the response-side checks (C03, C08, C09) and
one-exchange execution on the real server through the synchronous driver."""
import errno
import io

from . import httpclient, syncdrv


class AppFail(Exception):
    pass


class AppOSError(ConnectionResetError):
    """an OSError subclass raised by application code"""


class AppBase(BaseException):
    """a BaseException subclass raised by application code"""


EXC = {"Exception": AppFail, "OSError": AppOSError, "BaseException": AppBase}


class CountingFile(io.BytesIO):
    def __init__(self, data, counters):
        io.BytesIO.__init__(self, data)
        self.counters = counters

    def close(self):
        self.counters["file_closed"] += 1
        io.BytesIO.close(self)


class NoSeekFile:
    def __init__(self, data, counters):
        self._b = io.BytesIO(data)
        self.counters = counters

    def read(self, n=-1):
        return self._b.read(n)

    def close(self):
        self.counters["file_closed"] += 1


class Iterable:
    def __init__(self, chunks, script, counters, has_len):
        self.chunks = chunks
        self.script = script
        self.counters = counters
        self.i = 0
        if has_len:
            self.__class__ = IterableLen

    def __iter__(self):
        return self

    def __next__(self):
        f = self.script.get("fail")
        if f and f[0] == "iter" and f[1] == self.i:
            raise EXC[self.script.get("exc", "Exception")]("app failure in iteration %d" % self.i)
        hook = self.script.get("_on_iter")
        if hook:
            hook(self.i)
        if self.i >= len(self.chunks):
            raise StopIteration
        c = self.chunks[self.i]
        self.i += 1
        return c

    def close(self):
        self.counters["iter_closed"] += 1
        f = self.script.get("fail")
        if f and f[0] == "close":
            raise EXC[self.script.get("exc", "Exception")]("app failure in close()")


class IterNoClose:
    """an iterator that has no close() at all (map(), itertools.chain(), a hand-written iterator class)"""

    def __init__(self, chunks, script):
        self._it = Iterable(chunks, script, {"iter_closed": 0}, False)

    def __iter__(self):
        return self

    def __next__(self):
        return self._it.__next__()


class IterableLen(Iterable):
    def __len__(self):
        return len(self.chunks)


def body_chunks(script):
    return [bytes([97 + i]) * n for i, n in enumerate(script.get("chunks", []))]


def make_app(script, counters):
    def app(environ, start_response):
        counters["app_calls"] += 1
        f = script.get("fail")
        exc = EXC[script.get("exc", "Exception")]
        if f and f[0] == "call":
            raise exc("app failure at call")
        chunks = body_chunks(script)
        total = sum(len(c) for c in chunks)
        headers = [tuple(h) for h in script.get("headers", [["X-App", "v1"]])]
        cl = script.get("cl", "none")
        if cl == "exact":
            headers.append(("Content-Length", str(total)))
        elif cl == "larger":
            headers.append(("Content-Length", str(total + 3)))
        elif cl == "smaller":
            headers.append(("Content-Length", str(max(total - 1, 0))))
        hl = list(headers)
        st2_ = script.get("sr_twice") or {}
        if "first_cl" in st2_:
            # the first call declares another length than the response finally sent (the application changes its mind)
            hl = [h for h in hl if h[0].lower() != "content-length"] + [("Content-Length", str(st2_["first_cl"]))]
        if script.get("mutate_inner"):
            hl = [list(h) for h in hl]          # header items as lists (not tuples), changed in place after the call
        if f and f[0] == "start_response":
            raise exc("app failure before start_response")
        status = script.get("status", "200 OK")
        if script.get("swallow"):
            # an application that catches the refusal of its strings and carries on without calling again
            try:
                write = start_response(status, hl)
            except (ValueError, AssertionError, TypeError):
                write = None
        else:
            write = start_response(status, hl)
        if script.get("mutate_after"):
            hl.append(tuple(script["mutate_after"]))
        if script.get("mutate_inner"):
            i_, j_, v_ = script["mutate_inner"]
            hl[i_][j_] = v_
        if script.get("sr_twice"):
            # the application changes its mind before any output: allowed with exc_info
            try:
                raise AppFail("first attempt failed")
            except AppFail:
                import sys
                st2 = script["sr_twice"]
                h2 = [tuple(h) for h in st2.get("headers", [["X-Second", "v2"]])]
                if "first_cl" in st2 and cl == "exact":
                    h2.append(("Content-Length", str(total)))
                write = start_response(st2.get("status", "500 Oops"), h2, sys.exc_info())
        kind = script.get("kind", "list")
        if script.get("use_write"):
            nw = script.get("write_first")
            if nw is None:
                nw = len(chunks)
            for i, c in enumerate(chunks[:nw]):
                if f and f[0] == "write" and f[1] == i:
                    raise exc("app failure before write %d" % i)
                hook = script.get("_on_iter")
                if hook:
                    hook(i)
                write(c)
            if f and f[0] == "write" and f[1] >= nw:
                raise exc("app failure after the last write")
            # the remaining chunks (if any) come back through the iterable
            return Iterable(chunks[nw:], script, counters, kind == "list")
        if kind in ("file", "file_noseek"):
            data = b"".join(chunks)
            off = script.get("file_offset", 0)
            fobj = CountingFile(b"z" * off + data, counters) if kind == "file" else NoSeekFile(data, counters)
            if off and kind == "file":
                fobj.seek(off)      # the application hands over a file positioned behind its start (a range request)
            counters["file_handed"] += 1
            counters.setdefault("_keep", []).append(fobj)   # no garbage collection (IOBase.__del__ closes) before the counters are read
            hook = script.get("_on_iter")
            if hook:
                hook(0)   # a disconnect "at step 0" strikes just before the hand-over
            return environ["wsgi.file_wrapper"](fobj, 2)
        if kind == "noclose":
            return IterNoClose(chunks, script)
        return Iterable(chunks, script, counters, kind == "list")
    return app


def request_bytes(req, path="/x"):
    """req: dict(version, conn, method)"""
    m = req.get("method", "GET")
    v = req.get("version", "1.1")
    lines = ["%s %s HTTP/%s" % (m, path, v), "Host: h"]
    if req.get("conn"):
        lines.append("Connection: %s" % req["conn"])
    return ("\r\n".join(lines) + "\r\n\r\n").encode()


def exchange(script, req, adj=None, pipeline=1, disconnect_at=None, room=None, disc_mode="epipe", take=0):
    """Run one scripted exchange (plus `pipeline` further plain requests sent in
    the same read) on the real server; returns the observation record.
    disconnect_at=k: the client vanishes just before the application's k-th
    iteration step / write (send() fails with EPIPE from then on, and the I/O
    thread has or has not yet read the EOF, depending on disc_mode)."""
    counters = {"app_calls": 0, "iter_closed": 0, "file_closed": 0, "file_handed": 0}
    box = {}
    script = dict(script)
    if disconnect_at is not None:
        def hook(i):
            if i == disconnect_at:
                c = box["conn"]
                c.sock.peer_closed = True     # send() fails with EPIPE from now on
                c.sock.eof = True
                if disc_mode == "eof_seen":
                    # the I/O thread reads the EOF while the task runs (channel_request_lookahead >= 1):
                    # recv() returns b"" and wasyncore closes the channel
                    c.chan.handle_close()
        script["_on_iter"] = hook
    inner = make_app(script, counters)

    def app(environ, start_response):
        if environ.get("PATH_INFO") == "/next":
            body = b"next"
            start_response("200 OK", [("Content-Length", str(len(body))), ("X-Next", "1")])
            return [body]
        return inner(environ, start_response)
    srv = syncdrv.SyncServer(app, **dict(adj or {}))
    try:
        conn = srv.connect(room=room)
        conn.take = take
        box["conn"] = conn
        nxt = {"version": req.get("version", "1.1"), "conn": "keep-alive" if req.get("version") == "1.0" else ""}
        data = request_bytes(req) + b"".join(request_bytes(nxt, "/next") for _ in range(pipeline))
        conn.feed(data)
        methods = [req.get("method", "GET")] + ["GET"] * pipeline
        rs, rest, err = httpclient.parse_stream(conn.wire, methods, conn.closed)
        out = {"responses": [], "garbage": len(rest), "wire_error": err or "", "closed": conn.closed,
               "escaped": [e[1] for e in conn.exceptions], "loop_errors": list(srv.errors),
               "traceback_on_wire": b"Traceback" in conn.wire, "wire_len": len(conn.wire)}
        out.update({k: v for k, v in counters.items() if not k.startswith("_")})
        for r in rs:
            out["responses"].append({
                "status": r["status"], "reason": r["reason"], "version": r["version"], "interim": r["interim"],
                "framing": r["framing"], "complete": r["complete"], "body": list(r["body"][:64]), "blen": len(r["body"]),
                "headers": [[n, v] for n, v in r["headers"]], "lines": r["lines"],
                "close": any(n.lower() == "connection" and v.lower() == "close" for n, v in r["headers"]),
                "keepalive": any(n.lower() == "connection" and v.lower() == "keep-alive" for n, v in r["headers"]),
            })
        hend = conn.wire.find(b"\r\n\r\n")
        out["head_raw"] = list(conn.wire[: hend + 4]) if hend >= 0 else list(conn.wire[:200])
        return out
    finally:
        srv.close()
