"""Harness for the request-framing checks: feeds a byte stream, cut into reads,
to a real server connection and records what happened."""
import signal

from . import httpclient, syncdrv


class Hang(Exception):
    """raised by the watchdog inside code that does not return"""

KEEP = ("REQUEST_METHOD", "SERVER_PROTOCOL", "SCRIPT_NAME", "PATH_INFO", "QUERY_STRING", "CONTENT_LENGTH", "CONTENT_TYPE", "REQUEST_URI")


class FramingServer:
    """one server object reused for many connections (one per stream/segmentation)"""

    def __init__(self, **adj):
        self.calls = []
        self.server_vars = {}
        outer = self

        def app(environ, start_response):
            body = environ["wsgi.input"].read()
            env = {k: environ[k] for k in environ if k.startswith("HTTP_") or k in KEEP}
            sv = outer.server_vars
            outer.calls.append({"method": environ["REQUEST_METHOD"], "uri": environ.get("REQUEST_URI", ""), "body": body, "env": env,
                                "server_vars_ok": all(environ.get(k) == v for k, v in sv.items()),
                                "types_ok": all(isinstance(v, str) for k, v in environ.items() if k.startswith("HTTP_") or k in KEEP)})
            out = b"ok"
            start_response("200 OK", [("Content-Length", str(len(out))), ("X-Seq", str(len(outer.calls)))])
            return [out]
        self.srv = syncdrv.SyncServer(app, **adj)

    def close(self):
        self.srv.close()

    def run(self, stream, cuts=(), peer=("127.0.0.1", 40001)):
        """cuts: sorted offsets where a new read starts.  Returns the observation."""
        del self.calls[:]
        del self.srv.errors[:]
        conn = self.srv.connect(peer=peer)
        pieces = []
        last = 0
        for c in list(cuts) + [len(stream)]:
            if c > last:
                pieces.append(stream[last:c])
                last = c
        err_at = None
        after = 0
        hang = False
        fired = []

        def on_alarm(signum, frame):
            fired.append(1)
            raise Hang("no progress within the time budget")
        old = signal.signal(signal.SIGALRM, on_alarm)
        signal.setitimer(signal.ITIMER_REAL, self.budget_s, self.budget_s)
        try:
            hang, err_at, after = self._feed(conn, pieces)
        except Hang:
            hang = True
        finally:
            signal.setitimer(signal.ITIMER_REAL, 0)
            signal.signal(signal.SIGALRM, old)
        if fired:
            hang = True
        return self._observe(conn, hang, after)

    budget_s = 2.0

    def _feed(self, conn, pieces):
        err_at = None
        after = 0
        hang = False
        for i, pc in enumerate(pieces):
            if conn.closed:
                break
            before = sum(len(x) for x in conn.sock.inbox)
            conn.sock.deliver(pc)
            n = conn.pump(limit=3000)
            if n >= 3000:
                hang = True
                break
            consumed = sum(len(x) for x in conn.sock.inbox) == 0
            if err_at is not None and consumed and not conn.closed:
                after += 1
            if err_at is None and _has_error(conn.wire):
                err_at = i
        return hang, err_at, after

    def _observe(self, conn, hang, after):
        methods = ["GET"] * 50
        rs, rest, err = httpclient.parse_stream(conn.wire, methods, conn.closed)
        obs = []
        calls = list(self.calls)
        for r in rs:
            if r["interim"]:
                continue
            seq = [v for (n, v) in r["headers"] if n.lower() == "x-seq"]
            if r["status"] == 200 and seq:
                c = calls[int(seq[0]) - 1]
                e = c["env"]
                cpl = lambda x: [ord(ch) for ch in x]
                obs.append({"k": "app", "env": sorted([cpl(k), cpl(v)] for k, v in e.items() if k.startswith("HTTP_") or k in ("CONTENT_TYPE", "CONTENT_LENGTH")),
                            "proto": cpl(e.get("SERVER_PROTOCOL", "")), "script": cpl(e.get("SCRIPT_NAME", "")), "path": cpl(e.get("PATH_INFO", "")),
                            "query": cpl(e.get("QUERY_STRING", "")), "types_ok": bool(c["types_ok"]), "server_vars_ok": bool(c["server_vars_ok"]),
                            "method": list(c["method"].encode("latin-1")), "target": list(c["uri"].encode("latin-1")),
                            "body": list(c["body"]), "nf": sum(1 for k in c["env"] if k.startswith("HTTP_") or k in ("CONTENT_TYPE",)) + (1 if "CONTENT_LENGTH" in c["env"] and c["env"]["CONTENT_LENGTH"] != "" else 0),
                            "code": 200})
            else:
                obs.append({"k": "resp", "code": r["status"], "method": [], "target": [], "body": [], "nf": 0, "env": [], "proto": [], "script": [],
                            "path": [], "query": [], "types_ok": True, "server_vars_ok": True})
        return {"obs": obs, "closed": bool(conn.closed), "raised": bool(conn.exceptions or self.srv.errors), "hang": hang, "after": after,
                "wire_error": err or "", "garbage": len(rest), "calls": calls,
                "errors": list(self.srv.errors) + [e[1] for e in conn.exceptions], "interims": sum(1 for r in rs if r["interim"])}


def _has_error(wire):
    i = 0
    while True:
        j = wire.find(b"HTTP/1.", i)
        if j < 0:
            return False
        code = wire[j + 9:j + 12]
        if code[:1] in (b"4", b"5"):
            return True
        i = j + 5
