"""Thin runner around TLC (tla2tools 1.8): builds a scratch dir, runs a config,
parses statistics, PrintT output and invariant violations.

Every TLC run of the checks goes through run(); the statistics it returns are
what the evidence files report (nothing is hard-coded)."""
import json
import os
import re
import shutil
import subprocess
import tempfile
import time

VERIF = os.path.dirname(os.path.dirname(os.path.abspath(__file__)))
SPEC = os.path.join(VERIF, "spec")
JAR = "/opt/veriftools/tla/tla2tools.jar:/opt/veriftools/tla/CommunityModules-deps.jar"


class TLCResult:
    def __init__(self):
        self.rc = None
        self.out = ""
        self.generated = 0
        self.distinct = 0
        self.depth = 0
        self.queue = 0
        self.violated = None  # name of violated invariant/property or 'deadlock'
        self.error = None  # other error text (machinery)
        self.printed = []  # raw PrintT lines
        self.trace = []  # counterexample states (raw text blocks)
        self.wall = 0.0
        self.coverage = {}
        self.timed_out = False

    @property
    def ok(self):
        return self.rc == 0 and self.violated is None and self.error is None

    def stats(self):
        return {"generated": self.generated, "distinct": self.distinct, "depth": self.depth}


_STATS = re.compile(r"(\d+) states generated, (\d+) distinct states found, (\d+) states left on queue")
_DEPTH = re.compile(r"The depth of the complete state graph search is (\d+)")
_INV = re.compile(r"Error: Invariant (\S+) is violated")
_PROP = re.compile(r"Error: (?:Action|Temporal|State) propert(?:y|ies) (?:(\S+) )?(?:is|were|was) violated")
_COV = re.compile(r"^<(\w+) line (\d+), col (\d+) to line (\d+), col (\d+) of module (\w+)>: (\d+):(\d+)")


def scratch(prefix="wv"):
    return tempfile.mkdtemp(prefix=prefix + "-")


def run(module, cfg_text, *, workdir=None, workers=None, timeout=1800, simulate=None,
        depth=None, seed=None, coverage=False, deadlock=True, env=None, java_opts=(),
        extra=(), keep=False, dfid=None):
    """Run TLC on spec/<module>.tla (or workdir/<module>.tla when it was generated
    there) with the given config text.  Returns TLCResult."""
    own = workdir is None
    wd = workdir or scratch("tlc")
    res = TLCResult()
    try:
        cfg = os.path.join(wd, module + ".cfg")
        with open(cfg, "w") as f:
            f.write(cfg_text)
        if os.path.exists(os.path.join(wd, module + ".tla")):
            spec_file = os.path.join(wd, module + ".tla")
        else:
            spec_file = os.path.join(SPEC, module + ".tla")
        if workers is None:
            workers = os.cpu_count() or 4
        cmd = ["java", "-XX:+UseParallelGC", "-DTLA-Library=" + SPEC + os.pathsep + wd]
        if not any(o.startswith("-Xss") for o in java_opts):
            cmd += ["-Xss16m"]
        if not any(o.startswith("-Xmx") for o in java_opts):
            cmd += ["-Xmx%dm" % (8192 if workers >= 12 else 3072), "-XX:ParallelGCThreads=%d" % max(2, min(workers, 8))]
        cmd += list(java_opts)
        cmd += ["-cp", JAR, "tlc2.TLC", "-config", cfg, "-metadir", os.path.join(wd, "states"),
                "-noGenerateSpecTE"]
        if workers is None:
            workers = os.cpu_count() or 4
        cmd += ["-workers", str(workers)]
        if not deadlock:
            cmd += ["-deadlock"]
        if coverage:
            cmd += ["-coverage", "1"]
        if simulate is not None:
            cmd += ["-simulate", simulate]
        if depth is not None:
            cmd += ["-depth", str(depth)]
        if seed is not None:
            cmd += ["-seed", str(seed)]
        if dfid is not None:
            cmd += ["-dfid", str(dfid)]
        cmd += list(extra)
        cmd += [spec_file]
        e = dict(os.environ)
        if env:
            e.update({k: str(v) for k, v in env.items()})
        t0 = time.time()
        try:
            p = subprocess.run(cmd, cwd=wd, env=e, stdout=subprocess.PIPE, stderr=subprocess.STDOUT,
                               timeout=timeout, text=True, errors="replace")
            res.rc = p.returncode
            res.out = p.stdout
        except subprocess.TimeoutExpired as ex:
            res.rc = -9
            res.timed_out = True
            res.out = (ex.stdout or b"").decode("utf-8", "replace") if isinstance(ex.stdout, bytes) else (ex.stdout or "")
            res.error = "TLC timed out after %ss" % timeout
        res.wall = time.time() - t0
        _parse(res)
    finally:
        if own and not keep:
            shutil.rmtree(wd, ignore_errors=True)
    return res


def _parse(res):
    lines = res.out.splitlines()
    in_trace = False
    cur = []
    for ln in lines:
        m = _STATS.search(ln)
        if m:
            res.generated, res.distinct, res.queue = int(m.group(1)), int(m.group(2)), int(m.group(3))
        m = _DEPTH.search(ln)
        if m:
            res.depth = int(m.group(1))
        m = _INV.search(ln)
        if m and res.violated is None:
            res.violated = m.group(1)
        m = _PROP.search(ln)
        if m and res.violated is None:
            res.violated = m.group(1) or "property"
        if "Error: Deadlock reached" in ln and res.violated is None:
            res.violated = "deadlock"
        if ln.startswith("State ") and ": <" in ln or re.match(r"^State \d+:", ln):
            in_trace = True
            if cur:
                res.trace.append("\n".join(cur))
            cur = [ln]
            continue
        if in_trace:
            if ln.strip() == "" or re.match(r"^\d+ states generated", ln):
                in_trace = False
                if cur:
                    res.trace.append("\n".join(cur))
                cur = []
            else:
                cur.append(ln)
        m = _COV.match(ln)
        if m:
            res.coverage[m.group(1)] = res.coverage.get(m.group(1), 0) + int(m.group(8))
    if cur:
        res.trace.append("\n".join(cur))
    if res.violated is None and res.error is None:
        errs = [l for l in lines if l.startswith("Error:") or "Exception" in l and "java" in l]
        if errs:
            res.error = "\n".join(errs[:5])
        elif res.rc not in (0,):
            res.error = "TLC exit code %s" % res.rc
    # a violation makes rc 12/13; not a machinery error
    if res.violated is not None:
        res.error = None


def printed_json(res, tag):
    """PrintT(<<tag, json-string>>) lines -> python objects.  TLC prints tuples as
    <<"tag", "...json...">> with TLA+ string escapes."""
    out = []
    pre = '<<"%s", "' % tag
    for ln in res.out.splitlines():
        if ln.startswith(pre) and ln.endswith('">>'):
            s = ln[len(pre):-3]
            s = s.replace('\\"', '"').replace("\\\\", "\\")
            try:
                out.append(json.loads(s))
            except ValueError:
                raise RuntimeError("unparseable TLC output line: %r" % ln[:200])
    return out


def printed_tuples(res, tag):
    """PrintT(<<tag, a, b, ...>>) with int/string/set fields -> list of lists.
    Scans the whole output with bracket matching (several workers may print on
    one line)."""
    out = []
    text = res.out
    pat = re.compile(r'<<\s*"%s"' % re.escape(tag))
    m = pat.search(text)
    while m:
        i = m.start()
        j = i + 2
        depth, instr = 1, False
        while j < len(text) and depth > 0:
            c = text[j]
            if instr:
                if c == "\\":
                    j += 1
                elif c == '"':
                    instr = False
            elif c == '"':
                instr = True
            elif text.startswith("<<", j):
                depth += 1
                j += 1
            elif text.startswith(">>", j):
                depth -= 1
                j += 1
            j += 1
        body = text[i + 2:j - 2]
        out.append(_split_tuple(body)[1:])
        m = pat.search(text, j)
    return out


def _split_tuple(body):
    items, cur, depth, instr = [], "", 0, False
    i = 0
    while i < len(body):
        c = body[i]
        if instr:
            if c == "\\" and i + 1 < len(body):
                cur += body[i + 1]
                i += 2
                continue
            if c == '"':
                instr = False
            else:
                cur += c
        elif c == '"':
            instr = True
            cur += "\x00"  # mark as string
        elif c in "<{[(":
            depth += 1
            cur += c
        elif c in ">}])":
            depth -= 1
            cur += c
        elif c == "," and depth == 0:
            items.append(_conv(cur.strip()))
            cur = ""
        else:
            cur += c
        i += 1
    if cur.strip() or instr is False:
        items.append(_conv(cur.strip()))
    return items


def _conv(s):
    if s.startswith("\x00"):
        return s[1:]
    if re.fullmatch(r"-?\d+", s):
        return int(s)
    if s == "TRUE":
        return True
    if s == "FALSE":
        return False
    return s.replace("\x00", "")


def sany(path):
    p = subprocess.run(["java", "-DTLA-Library=" + SPEC, "-cp", JAR, "tla2sany.SANY", path],
                       cwd=os.path.dirname(path), stdout=subprocess.PIPE, stderr=subprocess.STDOUT, text=True)
    bad = p.returncode != 0 or "*** Errors" in p.stdout or "Fatal errors" in p.stdout or "Could not" in p.stdout
    return (not bad), p.stdout


def pcal(path):
    p = subprocess.run(["java", "-cp", JAR, "pcal.trans", "-nocfg", path], cwd=os.path.dirname(path),
                       stdout=subprocess.PIPE, stderr=subprocess.STDOUT, text=True)
    return p.returncode == 0 and "Translation completed" in p.stdout, p.stdout
