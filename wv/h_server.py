"""Harness for C18: real BaseWSGIServer objects sharing one socket map, real
channels, the real select-based wasyncore.poll(), fake sockets and a virtual
clock; environment events are applied one at a time and the loop is run until
nothing is ready."""
from . import seams, syncdrv

REQ_A = b"GET /x HTTP/1.1\r\nHost: h\r\n"
REQ_B = b"X-A: 1\r\n\r\n"


class World:
    def __init__(self, nl, limit, timeout, cleanup, maxconn):
        from waitress import wasyncore
        from waitress.adjustments import Adjustments
        from waitress.server import TcpWSGIServer
        seams.CLOCK[0] = 0.0
        self.kernel = seams.Kernel()
        self.inst = seams.Installed(self.kernel, timeout_mode="clock", shim_threading=False)
        self.inst.__enter__()
        self.wasyncore = wasyncore
        self.map = {}
        self.disp = syncdrv.CollectDispatcher()
        self.adj = Adjustments(connection_limit=limit, channel_timeout=timeout, cleanup_interval=cleanup, asyncore_loop_timeout=1)
        self.nl, self.maxconn = nl, maxconn

        def app(environ, start_response):
            body = b"x" * 300
            start_response("200 OK", [("Content-Length", str(len(body)))])
            return [body]
        self.listeners = []
        self.servers = []
        for i in range(nl):
            ls = seams.FakeListener(self.kernel, "L%d" % (i + 1))
            self.listeners.append(ls)
            self.servers.append(TcpWSGIServer(app, map=self.map, _start=True, _sock=ls, dispatcher=self.disp, adj=self.adj))
        self.socks = {}
        self.partial = {}
        self.finished_at = {}
        self.accepted_at = {}

    def close(self):
        for srv in self.servers:
            try:
                w = getattr(srv.trigger, "socket", None)
                if w is not None and hasattr(w, "fd"):
                    w.fd = -1
            except Exception:
                pass
        self.inst.__exit__()

    def chan(self, c):
        sk = self.socks.get(c)
        if sk is None:
            return None
        return self.map.get(sk.fd)

    def apply(self, e):
        k, c = e["k"], e.get("c", 0)
        if k == "connect":
            sk = seams.FakeSocket(self.kernel, "c%d" % c)
            sk.room = None
            self.socks[c] = sk
            self.listeners[e["l"] - 1].backlog.append(sk)
        elif k == "sendPartial":
            self.socks[c].inbox = [REQ_A]
            self.partial[c] = True
        elif k == "sendRest":
            sk = self.socks[c]
            # the first part may still be unread (channel not readable): then the whole request is pending
            sk.inbox = [REQ_B if (self.partial.get(c) and not sk.inbox) else REQ_A + REQ_B]
            self.partial[c] = False
        elif k == "clientReads":
            self.socks[c].room = None
        elif k == "clientStalls":
            self.socks[c].room = 0
        elif k == "appFinishes":
            ch = self.chan(c)
            for t in list(self.disp.tasks):
                if t is ch:
                    self.disp.tasks.remove(t)
                    t.service()
                    self.finished_at[c] = seams.CLOCK[0]
        elif k == "tick":
            seams.CLOCK[0] += e["dt"]
        self.settle()

    def sig(self):
        return (len(self.map), tuple(sorted((sk.fd, len(sk.wire), len(sk.inbox), sk.closed) for sk in self.socks.values())),
                tuple(len(l.backlog) for l in self.listeners), tuple(bool(getattr(ch, "will_close", False)) for ch in self.map.values()),
                tuple(s.in_connection_overflow for s in self.servers), len(self.disp.tasks))

    def settle(self):
        for _ in range(10):
            before = self.sig()
            self.wasyncore.poll(0.0, self.map)
            if self.sig() == before:
                break

    def snapshot(self):
        ch = []
        for c in range(1, self.maxconn + 1):
            sk = self.socks.get(c)
            if sk is None:
                ch.append({"st": "none", "busy": False, "pend": False, "wc": False, "room": True, "idle": 0})
                continue
            o = self.map.get(sk.fd)
            if sk.closed:
                stt = "closed"
            elif o is not None:
                stt = "open"
                self.accepted_at.setdefault(c, seams.CLOCK[0])
            else:
                stt = "queued"
            busy = bool(o is not None and o.requests)
            idle = max(self.accepted_at.get(c, 0), self.finished_at.get(c, 0), sk.last_io if stt == "open" else 0)
            ch.append({"st": stt, "busy": busy, "pend": bool(o is not None and o.total_outbufs_len > 0), "wc": bool(o is not None and o.will_close),
                       "room": sk.room is None or sk.room > 0, "idle": int(idle)})
        return {"now": int(seams.CLOCK[0]), "map": len(self.map), "over": [bool(s.in_connection_overflow) for s in self.servers],
                "backlog": [len(l.backlog) for l in self.listeners], "ch": ch}


def run_history(cfg, events, maxconn):
    w = World(cfg["nl"], cfg["limit"], cfg["timeout"], cfg["cleanup"], maxconn)
    out = []
    try:
        for e in events:
            try:
                w.apply(e)
            except Exception as ex:
                ev = dict(e)
                ev["snap"] = w.snapshot()
                ev["raised"] = repr(ex)[:200]
                out.append(ev)
                break
            ev = dict(e)
            ev["snap"] = w.snapshot()
            out.append(ev)
    finally:
        w.close()
    return out
