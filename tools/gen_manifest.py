#!/venv/bin/python
"""Regenerates /verif/MANIFEST.json from the table below (single source)."""
import json
import os

V = os.path.dirname(os.path.dirname(os.path.abspath(__file__)))
props = [json.loads(l)["id"] for l in open(os.path.join(V, "properties.jsonl"))]

MC = "model_checking"
# id -> (category, text, design_ref, level_note, technique)
CHECKS = {
    "C17": (MC,
            "TLC exhaustively checks the implementation-shaped buffer model (BufferOps/Buffer.tla, ROBuffer.tla) against the abstract byte queue for all histories over the threshold sizes; every history executed on the real OverflowableBuffer / ReadOnlyFileBasedBuffer (exhaustive to a depth with the string limit scaled to the model's, seeded random at the real 8 KiB limit and overflow thresholds) is replayed through the same specification by TLC, which names the violated clause. A bounded-history result, which is what the property's quantifier asks for.",
            "DESIGN.md 3.5, 6 (C17)",
            "trusted: TLC, the run-length encoding of returned bytes (byte i = i mod 251), patching waitress.buffers.STRBUF_LIMIT for the scaled part; prune() outside the quantifier",
            "TLA+ model (Buffer.tla) checked by TLC + batch trace validation of real-code histories by TLC"),
    "C14": (MC,
            "TLC explores every interleaving of handler threads, submitters, resizes and shutdown (critical-section atomicity, which is the code's: all pool state is touched under one lock) over a set of scripted + seeded scenarios and checks exactly-once, accounting, FIFO hand-over, convergence, no stranded task (and termination under fairness in the thorough tier). The real ThreadedTaskDispatcher runs the same scenarios under a deterministic scheduler with pre-emption at every lock/condition operation and every access to queue/threads/stop_count/active_count (bounded DFS + PCT walks); TLC validates each recorded schedule twice: as a behaviour of the model (post-state of every critical section) and against the property monitor.",
            "DESIGN.md 3.8, 6 (C14)",
            "trusted: TLC; the scheduler shim of threading (Lock/Condition semantics, FIFO notify); timed waits fire when the scheduler says so; schedule exhaustiveness on the code is bounded (pre-emption bound 2), unbounded only on the model",
            "TLA+ model (DispatcherOps.tla) model-checked by TLC + trace validation of real-code schedules (deterministic scheduler) by TLC"),
}

CHECKS["C10"] = (MC,
    "For each of the five gates TLC exhausts the product of (implementation automaton extracted at check time from the compiled pattern in /repo, in the match mode read from the call site, composed with the call-site stripping) x (call-site domain automaton) x (grammar automaton hand-written from the ABNF in spec/LexOps.tla): the reachable product is finite, so the two inclusion invariants decide language equality for strings of every length (a decision procedure, not sampling). A counterexample is the shortest distinguishing string and is reported only if the real call site reproduces it. In addition every string up to length 4/5 over the byte-class alphabet, all single-byte insertions/replacements in valid sentences and pumped sentences go through the REAL call site and are judged by TLC against the same grammar (this also validates the extractor: disagreement = drift).",
    "DESIGN.md 3.2, 6 (C10)",
    "trusted: TLC, the grammar automata in LexOps.tla (reviewed against RFC 9110/9112 ABNF), the regex->DFA extractor (validated against the real re object through the call-site sweep on every run); numeric conversion after the gate is sampled on pumped strings only",
    "language equality decided by TLC on the product automaton (TLA+ grammar DFA x extracted implementation DFA) + TLC-judged call-site sweep")

CHECKS["C20"] = (MC,
    "Adjust.tla is the single source (documented option table, exclusion rules, documented casts). TLC enumerates the complete bounded configuration space (every subset of the exclusive groups x trusted_proxy x count x header-kind sets incl. case variants x unknown option x socket-list kinds) with the verdict start-up must give, and the cast table; every emitted case is replayed on the real Adjustments in keyword and command-line form (refused iff the spec says so; resulting setting = documented value; CLI = keyword). TLC also checks the spec's option table against the three tables extracted at check time from Adjustments._params, docs/arguments.rst and runner.HELP. The space is finite and small: TLC contributes enumeration and set comparison.",
    "DESIGN.md 3.11, 6 (C20)",
    "trusted: TLC, the transcription of the documentation into Adjust.tla; listen values are only compared between CLI and keyword forms; real sockets are created (unbound) for the socket-list kinds",
    "TLC-enumerated configuration space of a TLA+ specification replayed on the implementation (spec -> code), TLC set comparison of option tables")

_px = "trusted: TLC, the element vocabulary and its ok/bad/bads/free classification in Proxy.tla (the specification's reading of the statement), the synchronous driver (real server object, middleware installed by server.py, fake sockets)"
CHECKS["C15"] = (MC,
    "Proxy.tla holds the vocabulary of header elements and the clauses. For every (server configuration, peer that is not the trusted proxy - incl. prefix/substring/superstring addresses and no proxy configured -, assignment of the six headers built from the vocabulary: well-formed, malformed, hostile) the real server is run with and without the proxy headers (requests of the real proxy interleaved on the same server object) and TLC evaluates non-interference on the seven metadata keys and clearing. Bounded enumeration (hop lists exhaustive to length 1-2 per kind, seeded beyond), judged case by case by TLC.",
    "DESIGN.md 3.10, 6 (C15)", _px, "TLA+ specification (Proxy.tla) evaluated by TLC on every executed case (batch trace validation), relational oracle: run with vs. without headers")
CHECKS["C16"] = (MC,
    "For every (trusted_proxy_count 1..4, allowed subset of trusted_proxy_headers, header assignment from the vocabulary of Proxy.tla incl. degenerate elements such as ':80', '[', '\"') the real server is run three times (as generated / without proxy headers / hop lists cut to the trusted suffix and untrusted kinds removed); TLC evaluates: never an exception or 500, 400 for uninterpretable headers, metadata taken from exactly the count-th hop from the right, left hops and untrusted kinds neither influence the metadata nor reach the application.",
    "DESIGN.md 3.10, 6 (C16)", _px, "TLA+ specification (Proxy.tla) evaluated by TLC on every executed case; relational oracle: full vs. cut-to-trusted-hops run")

_rs = "trusted: TLC, spec/Response.tla (expected body / delimitation / persistence / refusal rules written from RFC 9112 section 6, PEP 3333 and the property text), the independent client-side reader wv/httpclient.py, the synchronous driver (real server object on fake sockets; tasks run right after the read that queued them)"
CHECKS["C03"] = (MC,
    "The whole decision table (HTTP version x request Connection x method incl. HEAD x status class x declared Content-Length absent/exact/larger/smaller x chunk lists incl. empty chunks x list/generator/write()/write()-then-iterable/file wrapper seekable or not) is executed on the real server, each exchange followed by a pipelined request; the wire is lexed by an independent client-side reader and TLC evaluates, per exchange, that status, application headers and body (cut at the declared length) are recovered, that an undelimitable response closes the connection, that a close known in advance is announced and that an unannounced close means the next request is served. Persistence under concurrency (a read-ahead request behind an undelimitable/closing response) is explored with the deterministic scheduler and judged by the Pipeline monitor.",
    "DESIGN.md 3.4, 6 (C03)", _rs, "exhaustive enumeration of the application/request decision table on the implementation, every exchange judged by TLC against the TLA+ specification Response.tla; plus scheduler exploration for the concurrent clause")
CHECKS["C08"] = (MC,
    "Status strings, header names and values over the class alphabet {plain, CR, LF, CRLF, NUL, VT, colon, space, non-latin-1, empty, non-str} with the offending character at every position, hop-by-hop names, headers the server interprets (Content-Length, Date, Server), both start_response calls (initial and exc_info re-call) and header lists mutated after the call are run on the real server; TLC evaluates on the raw head bytes: offending strings refused with 500 and never emitted, clean strings not refused, CR and LF only as line terminators, every application field exactly one head line (letter case of the name aside), every other line a server field.",
    "DESIGN.md 3.4, 6 (C08)", _rs, "class-alphabet enumeration executed on the implementation, head bytes judged by TLC against the string model of Response.tla")
CHECKS["C09"] = (MC,
    "Application scripts x failure point (the call, start_response, every iteration step, every write, close) x exception class (Exception, OSError subclass, BaseException subclass) x expose_tracebacks x log_socket_errors, plus a client disconnect before every step (send fails with EPIPE; or the I/O thread has already read the EOF) incl. the file-wrapper hand-over, are run on the real server; TLC evaluates the failure ladder: nothing escapes HTTPChannel.service(), one complete 500 then close before output, close without further bytes after output, no traceback unless exposed, iterable closed exactly once, wrapped file closed exactly once.",
    "DESIGN.md 3.4, 6 (C09)", _rs, "fault-point enumeration executed on the implementation, every outcome judged by TLC against the failure ladder of Response.tla")

_fr = "trusted: TLC; spec/Framing.tla (reference RFC 9112 request framing written from the RFC text, with explicit freedom exactly where the property statement leaves a choice); the synchronous driver (real server object, parser, channel on fake sockets); streams are generated by the harness (grammar sentences, tables of malformed variants, byte-level mutations), judged one by one by TLC"
_ft = "TLA+ reference transducer (Framing.tla) evaluated by TLC on every executed stream (batch trace validation); segmentation enumeration on the implementation"
CHECKS["C01"] = (MC,
    "Every stream of the corpus (sentences of the request grammar with all three body framings, trailers, chunk extensions, obs-fold, absolute/origin/asterisk targets; pipelines; trailing partial messages and garbage; tables of ambiguous or malformed framing headers, chunk syntax, header-section and request-line near-misses; single-byte replacement/deletion/duplication at every position of the framing-critical sentences) is fed to the real server in one piece, byte-at-a-time and under sampled cuts; TLC walks the recorded outcome (application calls with method, target, body; error responses; closure) against the reference framing function Msg of Framing.tla: each delivered message must be what RFC 9112 extracts at that position, faulty framing must be refused (or, where allowed, processed and then closed), and the byte after one message starts the next. In addition the chunked decoder is transcribed into TLA+ (ReceiverOps.tla): TLC feeds a corpus of chunked bodies and near-misses to the transcription under every segmentation and checks the outcome against the grammar of Framing.tla; the transcription is bound to waitress.receiver.ChunkedReceiver by step-by-step trace validation (attributes after every read).",
    "DESIGN.md 3.1, 6 (C01)", _fr, _ft + "; TLC model checking of the transcribed decoder (Receiver.tla) + step-by-step trace validation of the real decoder against it")
CHECKS["C02"] = (MC,
    "For every stream of the corpus (incl. streams whose header/body limit is crossed at -1/0/+1) the real server is run under one-piece delivery, byte-at-a-time, every single cut and random k-cuts, one representative per sentence family also under up to 400 pairs of cuts; TLC requires every distinct outcome to conform to Framing.tla (which has no notion of read boundaries) and to equal the one-piece outcome. ALL 2^(n-1) segmentations are explored by TLC on the transcriptions of the incremental code - ChunkedReceiver.received (ReceiverOps.tla / Receiver.tla) and HTTPRequestParser.received (ParserOps.tla / Parser.tla: head buffering, blank-line search across reads, limit accounting, hand-over to the receivers) - with the invariant that outcome, body and bytes consumed equal those of the uncut input; the transcriptions are bound to the real objects by step-by-step trace validation (every attribute after every read).",
    "DESIGN.md 6 (C02)", _fr, _ft + "; TLC model checking of the transcribed incremental parser and decoder under every segmentation (Parser.tla, Receiver.tla) + step-by-step trace validation of the real objects against them")
CHECKS["C06"] = (MC,
    "The corpus under a sweep of max_request_header_size / max_request_body_size (tiny, size-1/size/size+1, defaults) and pumped sentences (each repeatable grammar position x10, x100, x1000) judged by TLC with Framing.tla: a message that reaches a limit or is malformed is never delivered, gets exactly one error response out of 400/413/431/501 fitting the fault, is followed by closure, and the server stops consuming. Totality (no exception, no hang - a watchdog interrupts code that does not return -, bounded consumption) is observed on all of these and on pumped sentences of 10^4..10^5 bytes. The refusal is also explored under concurrency (scheduler) with the Pipeline monitor. On the transcription of HTTPRequestParser.received (Parser.tla) TLC checks under every segmentation that a head not finished within max_request_header_size is refused with 431 and that the byte count never passes the limit unnoticed; the transcription is bound to the real parser step by step.",
    "DESIGN.md 6 (C06)", _fr + "; 'never raises / never hangs' is observed, not proved", _ft + "; watchdog for hangs; scheduler exploration for the refusal under concurrency")

CHECKS["C07"] = (MC,
    "Canonically well-formed requests (header-name vocabulary with dash/underscore aliases, case variants and names that map onto CGI variables; values with obs-text, interior whitespace, padding, empty; repeated fields; every target form incl. valid and invalid percent escapes; empty / small / spilled-to-tempfile / chunked bodies with trailers; pipelines) x url_prefix x TCP and unix peers run on the real server; for every application call TLC computes the expected environ image from the reference parse of the same bytes (Framing.tla + Trace_Environ.tla): each field once under its CGI name joined by ', ' in arrival order, underscore names absent, Transfer-Encoding removed and CONTENT_LENGTH = decoded length for chunked bodies, REQUEST_METHOD / SERVER_PROTOCOL / SCRIPT_NAME / PATH_INFO / QUERY_STRING, wsgi.input = framed body; server-defined variables unchanged by client fields; identical under three segmentations.",
    "DESIGN.md 3.3, 6 (C07)", _fr + "; Python string types are checked by the harness", _ft)

CHECKS["C18"] = (MC,
    "ServerOps.tla models BaseWSGIServer.readable()/maintenance()/handle_accept(), the channel's readable/writable/handle_read/handle_write and the select-based poll() under an integer clock. TLC explores every history of connect / send-partial / send-rest / client-reads / client-stalls / app-finishes / tick events for small constants (limit, timeouts, 1-2 listening sockets) and checks the limit, resumption of accepting, reaping in time and never-reap-busy. Seeded histories are executed on real server objects sharing a socket map (fake sockets, virtual clock, the real poll()); TLC validates each step twice: post-state projection against the model (drift otherwise) and the property monitor on what was read from the real objects.",
    "DESIGN.md 3.9, 6 (C18)",
    "trusted: TLC; the simulated kernel and clock; single-threaded histories (application work is an event) - the race between the end of service() and maintenance is not covered here",
    "TLA+ model (ServerOps.tla) model-checked by TLC + trace validation of real-code histories (post-state matching + property monitor) by TLC")

EXP = "exploration"
_chan_note = "trusted: TLC (judging), the simulated kernel and scheduler shims (Lock/Condition/select/poll/pipe semantics), the independent response lexer wv/httpclient.py; schedule coverage on the code is bounded (single pre-emptions depth-first from the start and spread over the whole default execution up to a limit, PCT / random pre-emption sampling beyond, extra single pre-emptions around any point where an execution leaves the model); what the model needs to know about a response (write sizes, closing or not) comes from a recording run of the scenario"
_chan_tech = "deterministic schedule exploration of the real server (bounded DFS + spread single pre-emptions + PCT/pre-emption sampling + drift-guided search) with TLC trace validation against the TLA+ property monitor Pipeline.tla"
for _pid, _what, _ref in (
        ("C04", "pipelining scenarios (1..3 requests, bodies, Expect, Connection: close, lookahead 0..2, 1..2 workers, partial-send patterns); clauses P04_*: executed in arrival order exactly once, one at a time, wire = concatenation of the responses in order, nothing duplicated/stray/cut", "DESIGN.md 6 (C04)"),
        ("C05", "the poll timeout taken as infinite (the select/poll shim blocks until a descriptor is ready), select and poll, response sizes around send_bytes/watermark/SO_SNDBUF, slow readers; clauses P05_*: at quiescence nothing is undelivered, unserviced, half-closed or waiting", "DESIGN.md 6 (C05)"),
        ("C11", "close-race scenarios (closing message x follower complete/partial/garbage x same/later read x lookahead 0,1,2(,5)), send faults; clauses P11_*: no application start after a close decision or after a closing response", "DESIGN.md 6 (C11)"),
        ("C12", "one producing worker vs. the draining I/O thread with small watermarks incl. 0 and 1, write sizes around the mark, partial drains, stall, disconnect; clauses P12_*: pending output <= watermark + one write, paused producer released; plus wire integrity", "DESIGN.md 6 (C12)"),
        ("C13", "one injected errno per scenario on send/recv/accept and on getsockopt/setsockopt/setblocking of a just-accepted socket, x schedules, with a healthy second connection; clauses P13_*: torn down once and only by the I/O thread, listener/trigger/loop/workers survive, other connection completes, buffers released", "DESIGN.md 6 (C13)"),
        ("C19", "pipelines mixing expecting and plain requests with waiting clients, head/body segmentation, lookahead 0..2; clauses P19_*: at most one interim, only for an expecting HTTP/1.1 request, placed between the neighbouring responses, waiting client never left waiting, request executed once with only its own fields", "DESIGN.md 6 (C19)")):
    _lvl = MC
    _model = (" TLC also model-checks the implementation-shaped model spec/Channel.tla (one step per lock / condition / socket / pipe / select operation and per access to requests, total_outbufs_len, will_close, close_when_flushed, connected; output counted in bytes; watermark wait with Condition wait/notify, send faults, a client that goes away, Expect) on small scenarios - the wire is a byte prefix of what was produced, responses in order, in-order exactly-once execution, one at a time, no execution after a close decision, teardown once and by the I/O thread, no lost wake-up at quiescence, interim response placed once and only for a request that asked, waiting client never left waiting, backlog <= watermark + one write, paused producer released, dead connection closed, and the liveness property that the system comes to rest under fair scheduling (no livelock) - and validates recorded executions of every scenario inside the model slice against it step by step (same operation label, same post-state incl. the exact total_outbufs_len); a mismatch is reported as DRIFT and downgrades the evidence level.  In the other direction, behaviours of Channel.tla produced by TLC's simulation mode are replayed on the real server (the scheduler follows the model's action sequence; a behaviour the server cannot follow is DRIFT).  Besides the hand-written scenarios, seeded random scenarios (checks/chan_random.py: request kinds, stray CRLFs, segmentation, lookahead, workers, application scripts incl. wsgi.file_wrapper, watermark / send_bytes / overflow settings, client read / close / reset patterns, errno sequences on send and recv; 80 in the quick tier, 600 in the thorough tier) are explored and judged by the same monitor, those inside the model's slice also validated against Channel.tla.")
    CHECKS[_pid] = (_lvl, "The real server (I/O loop, trigger, workers, channel) runs on a simulated kernel under a deterministic scheduler with a pre-emption point at every lock/condition/socket/pipe/select operation and every access to a shared channel attribute; scenarios: " + _what + ". Every recorded execution is judged by TLC against the observable-event monitor specification (spec/Pipeline.tla), which names the violated clause." + _model, _ref, _chan_note, _chan_tech + (" + TLC model checking of Channel.tla and step-by-step trace validation against it" if _lvl == MC else ""))

NA_REASON = "check not built yet (work in progress; see DESIGN.md section 6 for the planned TLA+ specification)"


def main():
    checks = []
    for pid in props:
        if pid not in CHECKS:
            continue
        cat, text, ref, note, tech = CHECKS[pid]
        checks.append({
            "property_id": pid,
            "quick_cmd": "./check %s --tier quick" % pid,
            "thorough_cmd": "./check %s --tier thorough" % pid,
            "evidence_file": "evidence/%s.json" % pid,
            "replay_cmd_template": "./check %s --replay {path}" % pid,
            "engine": "wv",
            "level_claimed": {"category": cat, "text": text, "design_ref": ref},
            "level_note": note,
            "technique": tech,
        })
    m = {
        "version": 1,
        "setup_cmd": "./setup",
        "hooks": {
            "guard": "WAITRESS_VERIF",
            "enable": "no source hooks: checks import /repo/src from the working tree (PYTHONPATH) and interpose through module attributes (threading/select/time/os of the waitress modules) and the documented test shims (_sock, _dispatcher, channel_class, start_new_thread); ./check exports WAITRESS_VERIF=1 for uniformity",
            "baseline_off_cmd": "cd /repo && /venv/bin/python -m pytest -ra -q -p no:cacheprovider --timeout=900 --continue-on-collection-errors",
            "source_commits": [],
            "add_only": True,
        },
        "engines": [{"name": "wv", "path": "wv/", "serves_properties": sorted(CHECKS),
                     "kind_free_text": "TLA+ specifications (spec/*.tla) checked with TLC; Python binding layer: deterministic scheduler, fake sockets/select/clock, batch trace validation by TLC, replay of TLC-generated behaviours"}],
        "checks": checks,
        "notes": "Every claimed property is decided by a TLA+ specification checked/evaluated by TLC and bound to the code by replay and/or trace validation; see DESIGN.md. known findings: known_findings.json. seeded defects: seeded/.",
        "not_applicable": [{"property_id": p, "reason": NA_REASON} for p in props if p not in CHECKS],
    }
    json.dump(m, open(os.path.join(V, "MANIFEST.json"), "w"), indent=1)
    print("manifest: %d checks, %d not claimed" % (len(checks), len(m["not_applicable"])))


if __name__ == "__main__":
    main()
