#!/venv/bin/python
"""Writes spec/Channel.tla (PlusCal) and runs the translator.  The flush loop of
HTTPChannel._flush_some occurs at six call sites and the watermark wait at two,
each with thread-specific locals; generating the text keeps the copies identical."""
import os
import subprocess
import sys

V = os.path.dirname(os.path.dirname(os.path.abspath(__file__)))

IOV = dict(outlen="outlen", sent="sent", tmp="tmp", flushed="ioflushed", exc="ioexc")
WV = dict(outlen="woutlen", sent="wsent", tmp="wtmp", flushed="wflushed", exc="wexc")


def flush_loop(sfx, v, who, after, style):
    """HTTPChannel._flush_some: `after` = label to continue at.  Sets v[flushed] (something was sent) and v[exc]
    (send raised an OSError).  style: "io" = called through _flush_some_if_lockable by the I/O thread with
    do_close=True (a disconnect errno tears the channel down from inside send; an exception first releases the
    lock, then _flush_exception sets will_close); "worker" = called through _flush_exception(do_close=False)
    with the lock held (will_close is set at once); "sc" = called directly by send_continue (do_close=True)."""
    # nosock: the flush finds bytes in a buffer of a channel that dispatcher.close() has already left without a
    # socket (handle_close leaves the bytes of a string-mode buffer where they are): self.socket.send raises
    # AttributeError before any socket call is made
    if style == "io":
        hard = """{exc} := TRUE; goto {after};"""
        disc = """{sent} := 0; closeRet := "{sfx}"; goto handle_close_acq_outbuf_lock;"""
        nosock = """{exc} := TRUE; goto {after};"""
    elif style in ("scio", "scw"):
        # send_continue flushes through _flush_exception: an error marks the channel for closing; a disconnect errno
        # tears the channel down from inside send on the I/O thread (do_close=True) and is left to the I/O thread by a
        # worker (service() passes do_close=False)
        hard = """{exc} := TRUE;
flush_exception_wr_will_close_{sfx}:
            willClose := TRUE; decided := TRUE;
            goto {after};"""
        disc = """{sent} := 0; closeRet := "{sfx}"; goto handle_close_acq_outbuf_lock;""" if style == "scio" else """{sent} := 0; goto {after};"""
        nosock = """{exc} := TRUE; goto flush_exception_wr_will_close_{sfx};"""
    else:
        hard = """{exc} := TRUE;
flush_exception_wr_will_close_{sfx}:
            willClose := TRUE; decided := TRUE;
            goto {after};"""
        disc = """{sent} := 0; goto {after};"""
        nosock = """{exc} := TRUE; goto flush_exception_wr_will_close_{sfx};"""
    t = """{sfx}_fs_top:
        {outlen} := BLen(obufs[1]);
        if ({outlen} > 0 /\\ nclose > 0) {{ """ + nosock + """ }};
{sfx}_fs_loop:
        while ({outlen} > 0) {{
send_send_sock_{sfx}:
          if (sfaults # <<>> /\\ Head(sfaults) = "hard") {{
            sfaults := Tail(sfaults); skerr := TRUE;
            """ + hard + """
          }} else if ((sfaults # <<>> /\\ Head(sfaults) = "disc") \\/ peerGone) {{
            skerr := skerr \\/ (sfaults # <<>> /\\ Head(sfaults) = "disc");
            sfaults := IF sfaults # <<>> THEN Tail(sfaults) ELSE sfaults;
            """ + disc + """
          }} else {{
            with (c = IF ostr[1] THEN obufs[1] ELSE Take(obufs[1], Min2({outlen}, cfg.sndbuf)), n = IF room = Unlimited THEN BLen(c) ELSE Min2(BLen(c), room)) {{
              sfaults := IF sfaults # <<>> THEN Tail(sfaults) ELSE sfaults;
              {sent} := n;
              wire := Join(wire, Take(c, n));
              room := IF room = Unlimited THEN Unlimited ELSE room - n;
              if (n = 0) {{ blocked := IF blocked < MaxAfterOf(cfg) THEN blocked + 1 ELSE blocked; goto {after}; }}
              else if (n > BLen(obufs[1])) {{ crashed := crashed \\cup {{{who}}}; goto {after}; }}
              else {{ ostr[1] := ostr[1] /\\ (n = BLen(obufs[1])); obufs[1] := Drop(obufs[1], n); {outlen} := {outlen} - n; {flushed} := TRUE; }};
            }};
          }};
flush_some_rd_total_outbufs_len_{sfx}:
          {tmp} := total;
flush_some_wr_total_outbufs_len_{sfx}:
          total := {tmp} - {sent};
        }};
{sfx}_fs_pop:
        if (Len(obufs) > 1) {{ obufs := Tail(obufs); ostr := Tail(ostr); goto {sfx}_fs_top; }};
"""
    return t.format(sfx=sfx, who=who, after=after, **v)


def send_continue(sfx, v, who):
    """HTTPChannel.send_continue(): called with requests_lock held"""
    loop = flush_loop("sc" + sfx, v, who, "sc_after_" + sfx, "sc" + sfx)
    return """send_continue_acq_outbuf_lock_{sfx}:
        await outOwner \\in {{"free", {who}}}; outOwner := {who}; outCount := outCount + 1;
send_continue_rd_total_outbufs_len_{sfx}:
        obufs[Len(obufs)] := Append(obufs[Len(obufs)], Seg(cur, 0, cfg.interim));
        produced := Append(produced, Seg(cur, 0, cfg.interim)); cnt := cnt + cfg.interim;
        {tmp} := total;
send_continue_wr_total_outbufs_len_{sfx}:
        total := {tmp} + cfg.interim; sentContinue := TRUE; curExpect := FALSE; {flushed} := FALSE; {exc} := FALSE;
        maxTotal := IF total > maxTotal THEN total ELSE maxTotal;
{loop}sc_after_{sfx}:
        skip;
send_continue_rel_outbuf_lock_{sfx}:
        outCount := outCount - 1; if (outCount = 0) {{ outOwner := "free"; }};
""".format(sfx=sfx, who=who, loop=loop, **v)


def watermark(sfx):
    """HTTPChannel._flush_outbufs_below_high_watermark(), called by a worker from write_soon (lock held) and
    from service (lock not held).  threading.Condition.wait releases the lock completely and queues the
    thread; it runs again once it has been notified and the lock is free."""
    loop = flush_loop("hw" + sfx, WV, "self", "hw_after_" + sfx, "worker")
    return """flush_outbufs_below_high_watermark_rd_total_outbufs_len_{sfx}:
      if (total > cfg.hwm) {{
flush_outbufs_below_high_watermark_acq_outbuf_lock_{sfx}:
        await outOwner \\in {{"free", self}}; outOwner := self; outCount := outCount + 1; wflushed := FALSE; wexc := FALSE;
{loop}hw_after_{sfx}:
        if (wexc) {{
          \\* the flush failed: wake the I/O thread and wait for it to decide (it closes the channel and notifies)
physical_pull_pull_trigger_hx{sfx}:
          trig := trig + 1;
physical_pull_pulled_trigger_hx{sfx}:
          saved := outCount; outCount := 0; outOwner := "free"; waiters := Append(waiters, self);
flush_outbufs_below_high_watermark_wait_outbuf_lock_x{sfx}:
          await (\\A i \\in 1..Len(waiters) : waiters[i] # self) /\\ outOwner = "free";
          outOwner := self; outCount := saved;
          goto flush_outbufs_below_high_watermark_rel_outbuf_lock_{sfx};
        }};
flush_outbufs_below_high_watermark_rd_connected_{sfx}:
        if (~connected) {{ goto flush_outbufs_below_high_watermark_rel_outbuf_lock_{sfx}; }};
flush_outbufs_below_high_watermark_rd_total_outbufs_len_{sfx}_2:
        if (total <= cfg.hwm) {{ goto flush_outbufs_below_high_watermark_rel_outbuf_lock_{sfx}; }};
physical_pull_pull_trigger_hw{sfx}:
        trig := trig + 1;
physical_pull_pulled_trigger_hw{sfx}:
        saved := outCount; outCount := 0; outOwner := "free"; waiters := Append(waiters, self);
flush_outbufs_below_high_watermark_wait_outbuf_lock_{sfx}:
        await (\\A i \\in 1..Len(waiters) : waiters[i] # self) /\\ outOwner = "free";
        outOwner := self; outCount := saved;
        goto flush_outbufs_below_high_watermark_rd_connected_{sfx};
flush_outbufs_below_high_watermark_rel_outbuf_lock_{sfx}:
        outCount := outCount - 1; if (outCount = 0) {{ outOwner := "free"; }};
      }};
""".format(sfx=sfx, loop=loop)


HEADER = r'''------------------------------ MODULE Channel ------------------------------
(* One connection of waitress at the code's atomicity: the I/O thread          *)
(* (wasyncore.poll + HTTPChannel.readable/writable/handle_read/handle_write/    *)
(* received/send_continue/handle_close), the worker threads (HTTPChannel.       *)
(* service, write_soon, _flush_some, _flush_outbufs_below_high_watermark,       *)
(* send_continue), the trigger and the task hand-off, with one step per         *)
(* visible operation: every lock / condition operation, every socket / pipe /   *)
(* select call and every access to requests, total_outbufs_len, will_close,     *)
(* close_when_flushed and connected (the attributes that are touched outside    *)
(* their lock).  A step is the visible operation together with the code up to   *)
(* the next one.                                                                *)
(* Visible labels are named <function>_<kind>_<object>[_suffix]; the binding    *)
(* layer records the same triple for every visible operation of the real code   *)
(* (spec/Trace_Channel.tla).  Labels without such a triple are control points.  *)
(*                                                                             *)
(* Output is counted in bytes: the execution of request rid is the sequence     *)
(* cfg.writes[rid] of write_soon sizes (0 = the application iterator is         *)
(* advanced, a visible step without effect on the channel), buffers and the wire are sequences of segments             *)
(* <<rid, k, n>> (n bytes of the k-th write of response rid; k = 0 is the       *)
(* interim response), so partial sends, send_bytes and the high watermark mean  *)
(* what they mean in the code and total_outbufs_len can be compared exactly.    *)
(*                                                                             *)
(* The scenario is the record cfg (a variable that never changes, so that one   *)
(* TLC run can validate traces of many scenarios): sends = what the client      *)
(* sends: a sequence of reads, each a sequence of pieces [rid, close, what]     *)
(* with what = "full" (a complete request), "head" (the header block of a       *)
(* request with Expect: 100-continue and a body) or "body" (the rest of it);    *)
(* ops = what the client does: [op, n, after] with op = "send", "read" (takes   *)
(* n bytes or everything (n = -1), possibly only once the socket was found full *)
(* `after` times), "await100" (waits for the n-th interim response), "close"    *)
(* (goes away); sfaults = the outcome of the successive send calls ("ok",       *)
(* "disc" = a disconnect errno, "hard" = an errno reported to the caller);      *)
(* writes, interim, lookahead, sendbytes, hwm, sndbuf, room.                    *)
(* rfaults likewise for recv ("eof" = end of file).                             *)
(* Not modelled: file-wrapper buffers, buffer overflow to disk, errors inside   *)
(* send_continue's flush, POLLHUP / POLLERR of poll().                          *)
(* This file is generated by tools/gen_channel.py (the copies of the flush      *)
(* loop and of the watermark wait) and then translated by pcal.                 *)
EXTENDS Integers, Sequences, FiniteSets, TLC

CONSTANTS CfgSet, Workers

Min2(a, b) == IF a < b THEN a ELSE b
NoReq == [rid |-> 0, close |-> FALSE, what |-> "full"]
RECURSIVE FlatSends(_, _)
FlatSends(S, i) == IF i > Len(S) THEN <<>> ELSE S[i] \o FlatSends(S, i + 1)

(* ---- byte segments ---- *)
Seg(r, k, n) == <<r, k, n>>
RECURSIVE BLen(_)
BLen(b) == IF b = <<>> THEN 0 ELSE b[1][3] + BLen(Tail(b))
RECURSIVE Take(_, _)
Take(b, m) == IF m <= 0 \/ b = <<>> THEN <<>>
              ELSE IF b[1][3] <= m THEN <<b[1]>> \o Take(Tail(b), m - b[1][3])
              ELSE <<Seg(b[1][1], b[1][2], m)>>
RECURSIVE Drop(_, _)
Drop(b, m) == IF m <= 0 \/ b = <<>> THEN b
              ELSE IF b[1][3] <= m THEN Drop(Tail(b), m - b[1][3])
              ELSE <<Seg(b[1][1], b[1][2], b[1][3] - m)>> \o Tail(b)
RECURSIVE Join(_, _)
Join(w, s) == IF s = <<>> THEN w
              ELSE IF w # <<>> /\ w[Len(w)][1] = s[1][1] /\ w[Len(w)][2] = s[1][2]
                   THEN Join([w EXCEPT ![Len(w)] = Seg(@[1], @[2], @[3] + s[1][3])], Tail(s))
                   ELSE Join(Append(w, s[1]), Tail(s))
(* w is a byte prefix of p (p has one segment per write) *)
IsBytePrefix(w, p) == /\ Len(w) <= Len(p)
                      /\ \A i \in 1..Len(w) : /\ w[i][1] = p[i][1] /\ w[i][2] = p[i][2]
                                              /\ IF i < Len(w) THEN w[i][3] = p[i][3] ELSE w[i][3] <= p[i][3]
IsPrefix(a, b) == Len(a) <= Len(b) /\ SubSeq(b, 1, Len(a)) = a
Finals(w) == SelectSeq(w, LAMBDA u : u[2] # 0)
(* `blocked` counts the sends that found the socket full; the client script only asks whether it has reached a
   threshold, so it saturates at the largest one (a socket with a pending error is reported writable for ever: the
   I/O loop may find it full any number of times) *)
MaxAfterOf(c) == LET A == {c.ops[i].after : i \in 1..Len(c.ops)} IN IF A = {} THEN 0 ELSE CHOOSE m \in A : \A x \in A : x <= m

'''

ALG = r'''(* --algorithm Channel {
variables
  cfg \in CfgSet,
  (* ---- the channel object ---- *)
  requests = <<>>, willClose = FALSE, cwf = FALSE, connected = FALSE, total = 0,
  obufs = << <<>> >>,          \* outbufs: a FIFO of buffers, each a sequence of segments not yet sent
  ostr = <<TRUE>>,             \* per buffer: still a plain byte string (OverflowableBuffer before its first partial skip):
                               \* get(n) then returns everything, whatever n
  cnt = 0,                     \* current_outbuf_count: bytes appended to the last buffer; at the mark the next write starts a new buffer
  cur = 0, curExpect = FALSE,  \* self.request: a partially received request that expects 100-continue
  sentContinue = FALSE,
  reqLock = "free", outOwner = "free", outCount = 0,
  waiters = <<>>,              \* threads in outbuf_lock.wait(), FIFO
  (* ---- server / kernel ---- *)
  trig = 0, taskq = 0, accepted = FALSE, inMap = FALSE, sockOpen = FALSE,
  backlog = FALSE, inbox = <<>>, room = cfg.room, wire = <<>>, nclose = 0, blocked = 0,
  peerGone = FALSE,            \* the client has gone away: sends fail with EPIPE, recv reports end of file
  sfaults = cfg.sfaults, rfaults = cfg.rfaults,
  skerr = FALSE,               \* a send has failed: the socket is reported ready from then on
  (* ---- history (not read by the modelled code) ---- *)
  produced = <<>>, started = <<>>, running = 0, decided = FALSE, execAfterDecision = FALSE, tornBy = <<>>, crashed = {},
  maxTotal = 0;

define {
  Unlimited == -1
  Writes == cfg.writes
  AllPieces == FlatSends(cfg.sends, 1)
  (* requests in the order in which they become complete *)
  ReqSeq == SelectSeq(AllPieces, LAMBDA p : p.what \in {"full", "body"})
  Expecting == {AllPieces[i].rid : i \in {j \in 1..Len(AllPieces) : AllPieces[j].what = "head"}}
  RespOf(r) == SelectSeq([k \in 1..Len(Writes[r]) |-> Seg(r, k, Writes[r][k])], LAMBDA x : x[3] > 0)
  RECURSIVE Concat(_, _)
  Concat(seq, i) == IF i > Len(seq) THEN <<>> ELSE RespOf(seq[i].rid) \o Concat(seq, i + 1)
  \* (a scripted outcome pending for the next send makes the socket report writable, like a spurious readiness)
  CanSend == room = Unlimited \/ room > 0 \/ peerGone \/ sfaults # <<>> \/ skerr
  SockReadable == inbox # <<>> \/ peerGone \/ rfaults # <<>>
  (* C04: what reaches the client is what was produced, in that order, nothing twice, nothing dropped in between *)
  WireIsPrefix == IsBytePrefix(wire, produced)
  ResponsesInOrder == IsPrefix(Finals(produced), Concat(ReqSeq, 1))
  InOrderExactlyOnce == IsPrefix(started, [i \in 1..Len(ReqSeq) |-> ReqSeq[i].rid])
  OneAtATime == running <= 1
  NoExecAfterCloseDecision == ~execAfterDecision
  TornOnceByIO == Len(tornBy) <= 1 /\ \A i \in 1..Len(tornBy) : tornBy[i] = "io"
  NoCrash == crashed = {}
  (* C19: an interim response only for a request that asked, at most once, after every earlier response
     and before its own final response *)
  InterimPlacement ==
    \A i \in 1..Len(produced) : produced[i][2] = 0 =>
       /\ produced[i][1] \in Expecting
       /\ \A j \in 1..Len(produced) : (j # i /\ produced[j][1] = produced[i][1]) => (j > i /\ produced[j][2] # 0)
       /\ \A j \in 1..(i - 1) : produced[j][1] # produced[i][1] =>
             Cardinality({k \in 1..(i - 1) : produced[k][1] = produced[j][1] /\ produced[k][2] # 0}) = Len(RespOf(produced[j][1]))
  (* C12: pending output never exceeds the mark by more than one write (plus the interim responses, which are
     appended without asking) *)
  WriteSizes == UNION {{Writes[r][k] : k \in 1..Len(Writes[r])} : r \in 1..Len(Writes)}
  MaxW == IF WriteSizes = {} THEN 0 ELSE CHOOSE m \in WriteSizes : \A x \in WriteSizes : x <= m
  BacklogBounded == maxTotal <= cfg.hwm + MaxW + Cardinality(Expecting) * cfg.interim
}

(* ------------------------------------------------------------------ client *)
fair process (client = "cl")
variables ci = 1, co = 1;
{
cl_connect: backlog := TRUE;
cl_loop:    while (co <= Len(cfg.ops)) {
              if (cfg.ops[co].op = "send") {
cl_send:        inbox := Append(inbox, cfg.sends[ci]); ci := ci + 1; co := co + 1;
              } else if (cfg.ops[co].op = "await100") {
cl_await100:    await Cardinality({i \in 1..Len(wire) : wire[i][2] = 0 /\ wire[i][3] = cfg.interim}) >= cfg.ops[co].n \/ (accepted /\ ~sockOpen);
                co := co + 1;
              } else if (cfg.ops[co].op = "close") {
cl_close:       peerGone := TRUE; co := co + 1;
              } else {
cl_read:        await blocked >= cfg.ops[co].after \/ (accepted /\ ~sockOpen);
                room := IF cfg.ops[co].n < 0 \/ room = Unlimited THEN Unlimited ELSE room + cfg.ops[co].n;
                co := co + 1;
              };
            };
}

(* ------------------------------------------------------------------ I/O thread *)
fair process (io = "io")
variables isr = FALSE, isw = FALSE, rdyT = FALSE, rdyR = FALSE, rdyW = FALSE, rdyL = FALSE,
          data = <<>>, piece = NoReq, locked = FALSE, sent = 0, tmp = 0, outlen = 0, ioflushed = FALSE, ioexc = FALSE,
          closeRet = "";
{
io_poll:
  while (TRUE) {
    isr := FALSE; isw := FALSE;
    if (inMap) {
readable_rd_will_close:
      if (willClose) { goto writable_rd_total_outbufs_len; };
readable_rd_close_when_flushed:
      if (cwf) { goto writable_rd_total_outbufs_len; };
readable_rd_requests:
      if (Len(requests) > cfg.lookahead) { goto writable_rd_total_outbufs_len; };
readable_rd_total_outbufs_len:
      isr := (total = 0);
writable_rd_total_outbufs_len:
      if (total > 0) { isw := TRUE; goto poll_select_loop; };
writable_rd_will_close:
      if (willClose) { isw := TRUE; goto poll_select_loop; };
writable_rd_close_when_flushed:
      isw := cwf;
    };
poll_select_loop:
    await trig > 0 \/ (~accepted /\ backlog) \/ (inMap /\ isr /\ SockReadable) \/ (inMap /\ isw /\ CanSend);
    rdyT := trig > 0; rdyL := ~accepted /\ backlog;
    rdyR := inMap /\ isr /\ SockReadable; rdyW := inMap /\ isw /\ CanSend;
io_accept:
    if (rdyL) {
accept_accept_L:
      accepted := TRUE; backlog := FALSE; sockOpen := TRUE; inMap := TRUE;
init_wr_connected:
      connected := TRUE;
init_wr_requests:
      requests := <<>>;
    };
io_trig:
    if (rdyT) {
recv_drain_trigger:
      trig := 0;
recv_drained_trigger:
      skip;
    };
io_read:
    if (rdyR /\ inMap) {
handle_read_event_rd_connected:
      skip;
recv_recv_sock:
      if (rfaults # <<>> /\ Head(rfaults) = "hard") {
        \* an errno that wasyncore re-raises: handle_read logs it and tears the channel down
        rfaults := Tail(rfaults); closeRet := "recvx"; goto handle_close_acq_outbuf_lock;
      } else if ((rfaults # <<>> /\ Head(rfaults) \in {"disc", "eof"}) \/ inbox = <<>>) {
        \* a disconnect errno or end of file: wasyncore.dispatcher.recv tears the channel down and returns
        \* nothing, then handle_read notes the disconnect
        rfaults := IF rfaults # <<>> THEN Tail(rfaults) ELSE rfaults;
        closeRet := "recv"; goto handle_close_acq_outbuf_lock;
      } else { data := Head(inbox); inbox := Tail(inbox); rfaults := IF rfaults # <<>> THEN Tail(rfaults) ELSE rfaults; };
received_acq_requests_lock:
      await reqLock = "free"; reqLock := "io";
received_rd_will_close:
      if (willClose) { goto received_rel_requests_lock; };
received_rd_close_when_flushed:
      if (cwf) { goto received_rel_requests_lock; };
io_received_loop:
      while (data # <<>>) {
        piece := Head(data); data := Tail(data);
        if (piece.what = "head") {
          cur := piece.rid; curExpect := TRUE;
received_rd_requests_e:
          if (requests = <<>> /\ ~sentContinue) {
@SC_IO@          };
        } else {
received_rd_requests:
          requests := Append(requests, [rid |-> piece.rid, close |-> piece.close, what |-> "full"]);
          sentContinue := FALSE; cur := 0; curExpect := FALSE;
received_rd_requests_2:
          if (Len(requests) = 1) { taskq := taskq + 1; };
        };
      };
received_rel_requests_lock:
      reqLock := "free";
      goto io_write;
handle_read_wr_connected:
      connected := FALSE;
    };
io_write:
    \* wasyncore.poll looks the descriptor up again before the write event; poll2 (asyncore_use_poll) hands both
    \* events to readwrite(), which calls handle_write_event even if the read event has just closed the channel
    if (rdyW /\ (inMap \/ cfg.usepoll)) {
handle_write_event_rd_connected:
      skip;
handle_write_rd_requests:
      if (requests # <<>>) {
handle_write_rd_total_outbufs_len:
        if (total < cfg.sendbytes) {
handle_write_rd_total_outbufs_len_3:
          if (total <= cfg.hwm) { goto handle_write_rd_close_when_flushed; };
        };
      };
flush_some_if_lockable_tryacq_outbuf_lock:
      ioflushed := FALSE; ioexc := FALSE;
      if (outOwner = "free") { outOwner := "io"; outCount := 1; locked := TRUE; }
      else { locked := FALSE; };
io_fs:
      if (locked) {
@FLUSH_IO@io_fs_after:
        if (ioexc) { goto flush_some_if_lockable_rel_outbuf_lock; };
flush_some_if_lockable_rd_total_outbufs_len:
        if (total <= cfg.hwm) {
flush_some_if_lockable_notify_outbuf_lock:
          waiters := IF waiters = <<>> THEN waiters ELSE Tail(waiters);
        };
flush_some_if_lockable_rel_outbuf_lock:
        outCount := outCount - 1; if (outCount = 0) { outOwner := "free"; }; locked := FALSE;
io_fexc:
        if (ioexc) {
flush_exception_wr_will_close_io:
          willClose := TRUE; decided := TRUE;
        };
      };
handle_write_rd_close_when_flushed:
      if (cwf) {
handle_write_rd_total_outbufs_len_2:
        if (total = 0) {
handle_write_wr_close_when_flushed:
          cwf := FALSE;
handle_write_wr_will_close:
          willClose := TRUE; decided := TRUE;
        };
      };
handle_write_rd_will_close:
      if (willClose) {
        closeRet := "hw";
handle_close_acq_outbuf_lock:
        await outOwner \in {"free", "io"}; outOwner := "io"; outCount := outCount + 1;
handle_close_wr_total_outbufs_len:
        \* OverflowableBuffer.close(): a file-based buffer is closed (and is empty from then on), the bytes of a
        \* string-mode buffer stay where they are
        total := 0; obufs := [i \in DOMAIN obufs |-> IF ostr[i] THEN obufs[i] ELSE <<>>];
handle_close_wr_connected:
        connected := FALSE;
handle_close_notify_outbuf_lock:
        waiters := IF waiters = <<>> THEN waiters ELSE Tail(waiters);
handle_close_rel_outbuf_lock:
        outCount := outCount - 1; if (outCount = 0) { outOwner := "free"; };
close_wr_connected:
        connected := FALSE; inMap := FALSE;
io_skclose:
        \* dispatcher.close(): the socket is closed once (self.socket is None afterwards)
        if (sockOpen) {
close_close_sock:
          sockOpen := FALSE; nclose := nclose + 1; tornBy := Append(tornBy, "io");
        };
io_close_ret:
        \* handle_close was called from inside send (disconnect errno with do_close) or recv (end of file):
        \* control returns there
        if (closeRet = "io") { closeRet := ""; goto io_fs_after; }
        else if (closeRet = "scio") { closeRet := ""; goto sc_after_io; }
        else if (closeRet = "recv") { closeRet := ""; goto handle_read_wr_connected; }
        else if (closeRet = "recvx") { closeRet := ""; goto io_write; }
        else { closeRet := ""; };
      };
    };
  };
}

(* ------------------------------------------------------------------ workers *)
fair process (worker \in Workers)
variables req = NoReq, u = 1, wsent = 0, wflushed = FALSE, wexc = FALSE, wtmp = 0, woutlen = 0, closeOnFinish = FALSE,
          aborted = FALSE, wrote = FALSE, saved = 0;
{
w_idle:
  while (TRUE) {
service_rd_requests:
    await taskq > 0;
    taskq := taskq - 1;
    if (requests = <<>>) { crashed := crashed \cup {self}; goto w_idle; } else { req := Head(requests); };
service_rd_connected:
    closeOnFinish := req.close; aborted := ~connected; u := 1; wrote := FALSE;
    if (aborted) { goto w_after; };
w_start:
    \* the application is invoked
    started := Append(started, req.rid); running := running + 1;
    execAfterDecision := execAfterDecision \/ decided;
w_units:
    while (u <= Len(Writes[req.rid])) {
      if (Writes[req.rid][u] = 0) {
execute_app_next:
        u := u + 1; goto w_units;
      };
write_soon_rd_connected:
      if (~connected) { aborted := TRUE; goto w_after; };
write_soon_acq_outbuf_lock:
      await outOwner \in {"free", self}; outOwner := self; outCount := outCount + 1;
@WATERMARK_W@write_soon_rd_connected_2:
      if (~connected) {
        \* raise ClientDisconnected: the with-block releases the lock
write_soon_rel_outbuf_lock_a:
        outCount := outCount - 1; if (outCount = 0) { outOwner := "free"; }; aborted := TRUE; goto w_after;
      };
write_soon_rd_total_outbufs_len:
      if (cnt >= cfg.hwm) { obufs := Append(obufs, <<Seg(req.rid, u, Writes[req.rid][u])>>); ostr := Append(ostr, TRUE); cnt := Writes[req.rid][u]; }
      else { obufs[Len(obufs)] := Append(obufs[Len(obufs)], Seg(req.rid, u, Writes[req.rid][u])); cnt := cnt + Writes[req.rid][u]; };
      produced := Append(produced, Seg(req.rid, u, Writes[req.rid][u]));
      wtmp := total; wrote := TRUE;
write_soon_wr_total_outbufs_len:
      total := wtmp + Writes[req.rid][u];
      maxTotal := IF total > maxTotal THEN total ELSE maxTotal;
write_soon_rd_total_outbufs_len_2:
      wflushed := FALSE; wsent := 0; wexc := FALSE;
      if (total >= cfg.sendbytes) {
@FLUSH_W@ws_after:
        if (wflushed /\ ~wexc) {
write_soon_rd_total_outbufs_len_3:
          if (total < cfg.sendbytes) { goto write_soon_rel_outbuf_lock; };
        };
physical_pull_pull_trigger_ws:
        trig := trig + 1;
physical_pull_pulled_trigger_ws:
        skip;
      };
write_soon_rel_outbuf_lock:
      outCount := outCount - 1; if (outCount = 0) { outOwner := "free"; };
      u := u + 1;
    };
w_end:
    running := running - 1;
w_after:
    if (aborted /\ running > 0 /\ req.rid \in {started[i] : i \in 1..Len(started)} /\ u <= Len(Writes[req.rid])) { running := running - 1; };
    if (closeOnFinish \/ aborted) { goto service_acq_requests_lock_c; };
service_rd_will_close:
    \* `not task.close_on_finish and not self.will_close and len(self.requests) > 1`: the between-requests flush comes
    \* before the close test, because it may itself fail and set will_close
    if (willClose) { goto service_rd_will_close_2; };
service_rd_requests_2:
    if (Len(requests) > 1) {
@WATERMARK_S@    };
service_rd_will_close_2:
    if (~willClose) { goto w_rotate; };
service_acq_requests_lock_c:
    await reqLock = "free"; reqLock := self;
service_wr_close_when_flushed:
    cwf := TRUE; decided := TRUE;
service_rd_requests_c:
    skip;
service_wr_requests_c:
    requests := <<>>;
service_rel_requests_lock_c:
    reqLock := "free";
    goto service_rd_connected_4;
w_rotate:
    \* "forcing the next request to create a new outbuf"
    if (cnt > 0) { cnt := cfg.hwm; };
service_acq_requests_lock:
    await reqLock = "free"; reqLock := self;
service_rd_requests_3:
    if (requests = <<>>) { crashed := crashed \cup {self}; } else { requests := Tail(requests); };
service_rd_connected_2:
    if (connected) {
service_rd_requests_4:
      if (requests # <<>>) { taskq := taskq + 1; goto service_rel_requests_lock; };
    };
service_rd_connected_3:
    if (connected /\ cur # 0 /\ curExpect /\ ~sentContinue) {
@SC_W@    };
service_rel_requests_lock:
    reqLock := "free";
service_rd_connected_4:
    if (connected) {
physical_pull_pull_trigger_svc:
      trig := trig + 1;
physical_pull_pulled_trigger_svc:
      skip;
    };
  };
}
} *)
\* BEGIN TRANSLATION
\* END TRANSLATION

(* ---- properties that mention the next-state relation ---- *)
Quiescent == ~ENABLED Next
(* C05: with the poll timeout infinite, the system never comes to rest while work is left on an open connection *)
NoLostWakeup == Quiescent => (inMap => (total = 0 /\ requests = <<>> /\ taskq = 0 /\ ~willClose /\ ~cwf /\ inbox = <<>>))
(* C04/C05: at rest, every request the client sent has been answered completely, or the connection was closed *)
AllAnswered == Quiescent => (~inMap \/ Finals(wire) = Concat(ReqSeq, 1))
(* C19: a client that waits for the interim response is never left waiting *)
ClientNotLeftWaiting == Quiescent => (pc["cl"] = "Done" \/ ~inMap)
(* C12: at rest no producer is parked *)
ProducerReleased == Quiescent => (waiters = <<>> /\ \A w \in Workers : pc[w] = "service_rd_requests")
(* C05/C12: no livelock - with every thread scheduled fairly the system comes to rest (the scenarios are finite),
   in particular the I/O loop does not spin on a channel it declines to flush while a producer waits for it *)
ComesToRest == <>Quiescent
(* the state in which known finding K-C12-wait-after-teardown begins: a worker's back-pressure flush raised
   because the I/O thread had already closed the channel.  Used only as CONSTRAINT NotLateFlush in a second
   run of a scenario in which TLC has reported that finding, so that the rest of its state space is searched *)
NotLateFlush == ~(nclose > 0 /\ \E w \in Workers : pc[w] \in {"flush_exception_wr_will_close_hws", "flush_exception_wr_will_close_hww"})
(* C13: a connection whose client went away is torn down, once *)
DeadConnectionClosed == Quiescent => (~(accepted /\ peerGone) \/ (~inMap /\ nclose = 1))
=============================================================================
'''


def main():
    alg = ALG
    alg = alg.replace("@SC_IO@", send_continue("io", IOV, '"io"'))
    alg = alg.replace("@SC_W@", send_continue("w", WV, "self"))
    alg = alg.replace("@FLUSH_IO@", flush_loop("io", IOV, '"io"', "io_fs_after", "io"))
    alg = alg.replace("@FLUSH_W@", flush_loop("w", WV, "self", "ws_after", "worker"))
    alg = alg.replace("@WATERMARK_W@", watermark("w"))
    alg = alg.replace("@WATERMARK_S@", watermark("s"))
    path = os.path.join(V, "spec", "Channel.tla")
    if len(sys.argv) > 1:
        path = sys.argv[1]
    open(path, "w").write(HEADER + alg)
    p = subprocess.run(["java", "-cp", "/opt/veriftools/tla/tla2tools.jar", "pcal.trans", "-nocfg", path], stdout=subprocess.PIPE, stderr=subprocess.STDOUT, text=True)
    print(p.stdout[-600:])
    try:
        os.remove(path[:-4] + ".old")
    except OSError:
        pass


if __name__ == "__main__":
    main()
