#!/venv/bin/python
"""Rewrites the table of seeded changes in DESIGN.md (between the markers) from seeded/*/meta.json."""
import glob, json, os, re
V = os.path.dirname(os.path.dirname(os.path.abspath(__file__)))
rows = []
for m in sorted(glob.glob(os.path.join(V, "seeded", "*", "meta.json"))):
    d = json.load(open(m))
    sid = os.path.basename(os.path.dirname(m))
    if "obsolete" in sid:
        continue
    br = " ".join((d.get("breaks") or "").split())
    br = re.sub(r"^#*\s*", "", br)
    br = re.sub(r"^C\d\d\s*/?\s*-?\s*(change )?[a-f]\s*[-—:]+\s*", "", br)[:150]
    det = " ".join((d.get("detected") or "").split())[:170]
    rows.append("| %s | %s | %s |" % (sid, br.replace("|", "/"), det.replace("|", "/")))
table = "| id | change | reported by |\n|---|---|---|\n" + "\n".join(rows) + "\n"
p = os.path.join(V, "DESIGN.md")
s = open(p).read()
a, b = "<!-- seeded-table-begin -->\n", "<!-- seeded-table-end -->\n"
if a in s:
    s = s[:s.index(a) + len(a)] + table + s[s.index(b):]
else:
    s = s.replace("\n\n## 11. Deviations", "\n\n" + a + table + b + "\n\n## 11. Deviations")
open(p, "w").write(s)
print(len(rows), "rows")
