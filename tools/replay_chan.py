#!/venv/bin/python
"""usage: tools/replay_chan.py <replay.json> [ntail]  -- re-executes one recorded schedule of the channel harness"""
import sys, json
sys.path.insert(0, '/verif')
from wv import core; core.repo_on_path()
from wv import h_channel, explore, dsched
rp = json.load(open(sys.argv[1]))['replay']
scn = rp['scenario']
labels = []
class Pol(explore.Replay):
    pass
def build(S):
    ctx = h_channel.Ctx(S, scn)
    prev = S.on_step
    def hook(name, label):
        labels.append((name, label))
        if prev: prev(name, label)
    S.on_step = hook
    return ctx
res, steps = explore.run_once(build, explore.Replay(rp['schedule']), budget=6000)
n = int(sys.argv[2]) if len(sys.argv) > 2 else 30
for x in labels[-n:]: print(x)
for e in res: print(json.dumps(e)[:1500])
